(* C05: the quiescence theorem in the executable terms of the correspondence check
   (Findings/C05.v: routing_ok; Model/Cluster.v: quiet, truth_remote), with boolean versions of the
   hypotheses on schedules so that the check can tell which of the schedules it replays on the real
   brokers the theorem speaks about.  Extra invariant: a broker never routes to itself. *)
From stdpp Require Import gmap.
From Coq Require Import ZArith List Lia.
From Emitter Require Import Model.Lww Model.Sender Model.Cluster Model.ClusterSched Proofs.LwwProofs Proofs.ClusterProofs
     Proofs.ClusterLinks Proofs.ClusterConverge Findings.C05.
Import ListNotations.
Local Open Scope N_scope.

(* ---- no broker has itself in the remote entries of its trie ---- *)
Definition NSR (b : broker) : Prop := forall s, ~ In (s, bk_name b) (bk_remote b).

Lemma NSR_find_peer b p : p <> bk_name b -> NSR b -> NSR (find_peer b p).
Proof.
  intros Hp H. unfold find_peer. destruct (member_get (bk_members b) p); [exact H|].
  assert (forall ks c r, (forall s, ~ In (s, bk_name b) r) ->
             forall s, ~ In (s, bk_name b) (snd (fold_left (fun acc k => count_key acc p k) ks (c, r)))) as F.
  { induction ks as [|k ks IH]; intros c r Hr; cbn [fold_left]; [exact Hr|].
    unfold count_key at 2. cbn [fst snd]. destruct (cnt_inc c (k_ssid k)) as [c1 first].
    apply IH. destruct first; [|exact Hr]. intros s X. apply in_set_add in X. destruct X as [X|X]; [apply (Hr s X)|].
    injection X as _ X. apply Hp. symmetry. exact X. }
  specialize (F (subs_of (bk_state b) p) [] (bk_remote b) H).
  destruct (fold_left _ _ _) as [c r]. exact F.
Qed.

Lemma NSR_merge_entry_effect st0 acc k : NSR (fst acc) -> NSR (fst (merge_entry_effect st0 acc k)).
Proof.
  destruct acc as [b fresh]. cbn [fst]. intros H. unfold merge_entry_effect. destruct (k_peer k =? bk_name b) eqn:En; [exact H|].
  apply N.eqb_neq in En. destruct (member_get (bk_members b) (k_peer k)) as [c0|] eqn:G.
  - destruct (existsb (N.eqb (k_peer k)) fresh); [exact H|].
    destruct (if negb (is_added (fetch st0 k)) && is_added (fetch (bk_state b) k) then cnt_inc c0 (k_ssid k) else (c0, false)) as [c1 first].
    destruct (if is_added (fetch st0 k) && negb (is_added (fetch (bk_state b) k)) then cnt_dec c1 (k_ssid k) else (c1, false)) as [c2 last].
    cbn [fst]. intros s. cbn [bk_name bk_remote]. intros X.
    assert (In (s, bk_name b) (if first then set_add (k_ssid k, k_peer k) (bk_remote b) else bk_remote b)) as Y.
    { destruct last; [apply in_set_del in X; apply X | exact X]. }
    destruct first; [|apply (H s Y)]. apply in_set_add in Y. destruct Y as [Y|Y]; [apply (H s Y)|].
    injection Y as _ Y. apply En. symmetry. exact Y.
  - cbn [fst]. apply NSR_find_peer; assumption.
Qed.

Lemma NSR_swarm_merge b payload : NSR b -> NSR (fst (swarm_merge b payload)).
Proof.
  intros H. unfold swarm_merge. destruct (state_merge (bk_state b) payload) as [st' [delta|]]; cbn [fst]; [|exact H].
  set (b0 := BK (bk_name b) st' (bk_members b) (bk_remote b) (bk_local b)).
  assert (forall (l : list (N * entry)) (acc : broker * list N), NSR (fst acc) ->
             NSR (fst (fold_left (fun acc ke => merge_entry_effect (bk_state b) acc (fst ke)) l acc))) as F.
  { induction l as [|x l IH]; intros acc Ha; cbn [fold_left]; [exact Ha|]. apply IH. apply NSR_merge_entry_effect. exact Ha. }
  apply F. exact H.
Qed.

Lemma NSR_peer_offline b p t : NSR b -> NSR (peer_offline b p t).
Proof.
  intros H. unfold peer_offline. destruct (member_get (bk_members b) p); [|exact H].
  intros s. cbn [bk_name bk_remote]. intros X. apply fold_set_del_in in X. apply (H s). apply X.
Qed.

Definition WNSR (w : world) : Prop := forall n, NSR (get_broker w n).

Lemma WNSR_set w b' : WNSR w -> NSR b' -> WNSR (set_broker w b').
Proof. intros H Hb n. destruct (get_broker_set w b' n) as [->| ->]; [exact Hb | apply H]. Qed.
Lemma WNSR_links w w' : w_brokers w' = w_brokers w -> WNSR w -> WNSR w'.
Proof. intros E H n. rewrite (get_broker_ext w w' n E). apply H. Qed.

Lemma WNSR_step w e : wf_ev e -> WINV w -> WNSR w -> WNSR (step w e).
Proof.
  intros We WI H. destruct e as [b conn ssid t | b conn ssid t | a b | a b | b p t | a b]; cbn [step wf_ev] in *.
  - eapply WNSR_links; [apply fold_links_brokers; intros; apply link_bcast_brokers|]. apply WNSR_set; [exact H | apply H].
  - eapply WNSR_links; [apply fold_links_brokers; intros; apply link_bcast_brokers|]. apply WNSR_set; [exact H | apply H].
  - destruct (l_gossip (get_link w a b)) as [| |r] eqn:G.
    + destruct (l_bcast (get_link w a b)) as [payload|]; [|exact H].
      change (get_broker (upd_link w a b (fun _ => LK a b GNone None)) b) with (get_broker w b).
      destruct (swarm_merge (get_broker w b) payload) as [b' d] eqn:E.
      eapply WNSR_links; [reflexivity|]. apply WNSR_set; [eapply WNSR_links; [|exact H]; reflexivity|].
      change b' with (fst (b', d)). rewrite <- E. apply NSR_swarm_merge. apply H.
    + change (get_broker (upd_link w a b (fun l => LK a b GNone (l_bcast l))) b) with (get_broker w b).
      destruct (swarm_merge (get_broker w b) (bk_state (get_broker w a))) as [b' d] eqn:E.
      assert (WNSR (set_broker (upd_link w a b (fun l => LK a b GNone (l_bcast l))) b')) as H1.
      { apply WNSR_set; [eapply WNSR_links; [|exact H]; reflexivity|]. change b' with (fst (b', d)). rewrite <- E. apply NSR_swarm_merge. apply H. }
      destruct d as [delta|]; (eapply WNSR_links; [|exact H1]); [|reflexivity].
      rewrite fold_links_brokers; [reflexivity | intros; apply link_send_brokers].
    + change (get_broker (upd_link w a b (fun l => LK a b GNone (l_bcast l))) b) with (get_broker w b).
      destruct (swarm_merge (get_broker w b) r) as [b' d] eqn:E.
      assert (WNSR (set_broker (upd_link w a b (fun l => LK a b GNone (l_bcast l))) b')) as H1.
      { apply WNSR_set; [eapply WNSR_links; [|exact H]; reflexivity|]. change b' with (fst (b', d)). rewrite <- E. apply NSR_swarm_merge. apply H. }
      destruct d as [delta|]; (eapply WNSR_links; [|exact H1]); [|reflexivity].
      rewrite fold_links_brokers; [reflexivity | intros; apply link_send_brokers].
  - eapply WNSR_links; [|exact H]. reflexivity.
  - eapply WNSR_links; [reflexivity|]. apply WNSR_set; [exact H|]. apply NSR_peer_offline. apply H.
  - assert (WNSR (set_broker w (find_peer (get_broker w a) b))) as H1.
    { apply WNSR_set; [exact H|]. apply NSR_find_peer; [rewrite (proj2 (WI a)); intros E; apply We; symmetry; exact E | apply H]. }
    assert (WINV (set_broker w (find_peer (get_broker w a) b))) as WI1.
    { apply WINV_set; [exact WI|]. apply INV_find_peer; [rewrite (proj2 (WI a)); intros E; apply We; symmetry; exact E | apply WI]. }
    set (w1 := set_broker w (find_peer (get_broker w a) b)) in *.
    eapply WNSR_links; [reflexivity|]. apply WNSR_set; [exact H1|]. apply NSR_find_peer; [rewrite (proj2 (WI1 b)); exact We | apply H1].
Qed.

Lemma WNSR_run ns es : Forall wf_ev es -> WNSR (run ns es).
Proof.
  intros F. assert (WINV (world0 ns) /\ WNSR (world0 ns)) as H0.
  { split; [apply WINV_world0|]. intros n s. destruct (WINV_world0 ns n) as [_ Hn].
    unfold get_broker, world0 in *. cbn [w_brokers] in *. induction ns as [|x ns IH]; cbn [map find] in *; [intros []|].
    cbn [broker0 bk_name] in *. destruct (x =? n); [intros [] | apply IH; exact Hn]. }
  unfold run. revert H0. generalize (world0 ns). induction es as [|e es IH]; intros w [WI H]; cbn [fold_left]; [exact H|].
  inversion F; subst. apply IH; [assumption|]. split; [apply WINV_step; assumption | apply WNSR_step; assumption].
Qed.

(* ---- the boolean hypotheses (Model/ClusterSched.v) are sound ---- *)
Lemma inb_In n ns : inb n ns = true <-> In n ns. Proof. apply existsb_eqb_in. Qed.

Lemma wf_evb_ok e : wf_evb e = true -> wf_ev e.
Proof.
  destruct e as [b c s t | b c s t | a b | a b | b p t | a b]; cbn [wf_evb wf_ev]; intros H; try exact I.
  - apply andb_prop in H. destruct H as [H H3]. apply andb_prop in H. destruct H as [H1 H2].
    apply N.ltb_lt in H1, H2. apply Z.leb_le in H3. auto.
  - apply andb_prop in H. destruct H as [H H3]. apply andb_prop in H. destruct H as [H1 H2].
    apply N.ltb_lt in H1, H2. apply Z.leb_le in H3. auto.
  - apply andb_prop in H. destruct H as [H1 H2]. apply negb_true_iff, N.eqb_neq in H1. apply Z.leb_le in H2. auto.
  - apply negb_true_iff, N.eqb_neq in H. exact H.
Qed.

Lemma ev_okb_ok ns g e : ev_okb ns g e = true -> ev_ok ns g e.
Proof.
  unfold ev_okb, ev_ok. intros H. apply andb_prop in H. destruct H as [H1 H2]. split; [apply wf_evb_ok; exact H1|].
  destruct e as [b c s t | b c s t | a b | a b | b p t | a b]; try exact I;
    apply andb_prop in H2; destruct H2 as [A B]; (split; [apply inb_In; exact A|]); try (apply inb_In; exact B); apply Z.ltb_lt; exact B.
Qed.

Lemma sched_okb_ok ns : forall es g, sched_okb ns g es = true -> sched_ok ns g es.
Proof.
  induction es as [|e es IH]; intros g H; cbn [sched_okb sched_ok] in *; [exact I|].
  apply andb_prop in H. destruct H as [H1 H2]. split; [apply ev_okb_ok; exact H1 | apply IH; exact H2].
Qed.

Lemma sched_ok_wf ns : forall es g, sched_ok ns g es -> Forall wf_ev es.
Proof.
  induction es as [|e es IH]; intros g H; [constructor|]. destruct H as [[H1 _] H2]. constructor; [exact H1 | apply (IH _ H2)].
Qed.

Lemma all_upb_ok ns g : all_upb ns g = true -> all_up ns g.
Proof.
  unfold all_upb, all_up. intros H a b Ha Hb Hab. rewrite forallb_forall in H. specialize (H a Ha). rewrite forallb_forall in H.
  specialize (H b Hb). apply orb_prop in H. destruct H as [H|H]; [apply N.eqb_eq in H; contradiction | exact H].
Qed.

Lemma nodupb_ok ns : nodupb ns = true -> List.NoDup ns.
Proof.
  induction ns as [|x r IH]; cbn [nodupb]; intros H; [constructor|]. apply andb_prop in H. destruct H as [H1 H2].
  constructor; [|apply IH; exact H2]. intros X. apply inb_In in X. rewrite X in H1. discriminate.
Qed.

(* ---- truth_remote ---- *)
Lemma dedup_in (s : N) : forall (l : list (N * N)) acc,
  In s (fold_left (fun acc e => if existsb (N.eqb (fst e)) acc then acc else acc ++ [fst e]) l acc) <-> In s acc \/ exists c, In (s, c) l.
Proof.
  induction l as [|[s' c'] l IH]; intros acc; cbn [fold_left].
  - split; [auto | intros [H|[c []]]; exact H].
  - rewrite IH. cbn [fst]. split.
    + intros [H|[c H]]; [|right; exists c; right; exact H].
      destruct (existsb (N.eqb s') acc) eqn:E; [left; exact H|]. apply in_app_or in H. destruct H as [H|[<-|[]]]; [left; exact H|].
      right. exists c'. left. reflexivity.
    + intros [H|[c [H|H]]].
      * left. destruct (existsb (N.eqb s') acc); [exact H | apply in_or_app; left; exact H].
      * injection H as -> ->. left. destruct (existsb (N.eqb s) acc) eqn:E; [apply existsb_eqb_in; exact E | apply in_or_app; right; left; reflexivity].
      * right. exists c. exact H.
Qed.

Lemma in_truth_remote w b s p :
  In (s, p) (truth_remote w b) <-> In p (others w b) /\ exists conn, In (s, conn) (bk_local (get_broker w p)).
Proof.
  unfold truth_remote. rewrite in_flat_map. split.
  - intros (q & Hq & H). apply in_map_iff in H. destruct H as (s' & E & H). injection E as -> ->.
    apply dedup_in in H. destruct H as [[]|H]. auto.
  - intros [Hp (conn & H)]. exists p. split; [exact Hp|]. apply in_map_iff. exists s. split; [reflexivity|].
    apply dedup_in. right. exists conn. exact H.
Qed.

Lemma existsb_pair_in x l : existsb (pair_eqb x) l = true <-> In x l.
Proof.
  rewrite existsb_exists. split.
  - intros (y & Hy & E). apply pair_eqb_eq in E. subst. exact Hy.
  - intros H. exists x. split; [exact H | apply pair_eqb_eq; reflexivity].
Qed.

(* a route points to a broker of the cluster *)
Lemma route_target_in ns w g b p s : CONV ns w g -> p <> b -> In (s, p) (bk_remote (get_broker w b)) -> In p ns.
Proof.
  intros C Hpb Hin. destruct (c_winv _ _ _ C b) as [Hib Hnb].
  assert (p <> bk_name (get_broker w b)) as Hp by (rewrite Hnb; exact Hpb).
  destruct (member_get (bk_members (get_broker w b)) p) as [cnt|] eqn:G.
  2: { exfalso. apply (no_route_without_member _ p Hib Hp G s Hin). }
  apply (routes_by_state _ p cnt Hib Hp G s) in Hin. destruct Hin as (k & K1 & K2 & K3).
  destruct (in_dec N.eq_dec p ns) as [Y|Nn]; [exact Y|]. exfalso.
  assert (S w p = ∅) as E by (unfold S; rewrite get_broker_not_in; [reflexivity | rewrite (c_names _ _ _ C); exact Nn]).
  destruct (c_i1 _ _ _ C b k) as [I1 _]. rewrite K1, E in I1. destruct (empty_times k) as [E1 _]. rewrite E1 in I1.
  destruct (proj1 Hib k) as [N1 _]. fold (S w b) in N1.
  unfold status, is_added in K3. apply andb_prop in K3. destruct K3 as [K3 _]. apply negb_true_iff, Z.eqb_neq in K3.
  change (e_add (fetch (bk_state (get_broker w b)) k)) with (tadd (S w b) k) in K3. lia.
Qed.

(* ---- the property, decided: every schedule within the hypotheses ends, once gossip has quiesced,
   with every broker forwarding exactly to the brokers that have a live local subscriber ---- *)
Theorem quiescent_routing_ok ns es :
  nodupb ns = true -> sched_okb ns ghost0 es = true -> all_upb ns (grun es) = true -> quiet (run ns es) = true ->
  routing_ok (run ns es) = true.
Proof.
  intros ND Hs Up Q. apply nodupb_ok in ND. apply sched_okb_ok in Hs. apply all_upb_ok in Up.
  pose proof (CONV_run ns es ND Hs) as C. pose proof (WNSR_run ns es (sched_ok_wf ns es _ Hs)) as NS.
  pose proof (quiescent_routing_is_the_truth ns _ _ C Up Q) as R.
  set (w := run ns es) in *. unfold routing_ok. apply forallb_forall. intros b Hb. rewrite (c_names _ _ _ C) in Hb.
  destruct (c_winv _ _ _ C b) as [_ Hnb].
  apply andb_true_intro. split; apply forallb_forall; intros [s p] Hin; apply existsb_pair_in.
  - assert (p <> b) as Hpb by (intros ->; apply (NS b s); rewrite Hnb; exact Hin).
    pose proof (route_target_in ns w _ b p s C Hpb Hin) as Hp.
    apply in_truth_remote. split.
    + unfold others. apply filter_In. rewrite (c_names _ _ _ C). split; [exact Hp | apply negb_true_iff, N.eqb_neq; exact Hpb].
    + apply (R b p Hb Hp ltac:(intros X; apply Hpb; symmetry; exact X) s). exact Hin.
  - apply in_truth_remote in Hin. destruct Hin as [Ho Hc]. unfold others in Ho. apply filter_In in Ho. destruct Ho as [Hp Hpb].
    rewrite (c_names _ _ _ C) in Hp. apply negb_true_iff, N.eqb_neq in Hpb.
    apply (R b p Hb Hp ltac:(intros X; apply Hpb; symmetry; exact X) s). exact Hc.
Qed.

(* the hypotheses are met by the regression schedules (clients subscribing and unsubscribing in
   bursts, coalesced payloads, complete states, a peer collected and back) *)
Example hypotheses_met :
  (sched_okb [1; 2] ghost0 f5_schedule && all_upb [1; 2] (grun f5_schedule) && quiet (run [1; 2] f5_schedule)) = true
  /\ (sched_okb [1; 2; 3] ghost0 f7_schedule && all_upb [1; 2; 3] (grun f7_schedule) && quiet (run [1; 2; 3] f7_schedule)) = true
  /\ (sched_okb [1; 2] ghost0 f7c_schedule && all_upb [1; 2] (grun f7c_schedule) && quiet (run [1; 2] f7c_schedule)) = true.
Proof. vm_compute. repeat split. Qed.

(* ---- "reaches each such subscriber once": the trie entries are duplicate-free ---- *)
Definition NDB (b : broker) : Prop := List.NoDup (bk_remote b) /\ List.NoDup (bk_local b).

Lemma NoDup_set_add x l : List.NoDup l -> List.NoDup (set_add x l).
Proof.
  intros H. unfold set_add. destruct (existsb (pair_eqb x) l) eqn:E; [exact H|]. apply NoDup_snoc; [exact H|].
  intros X. apply existsb_pair_in in X. congruence.
Qed.
Lemma NoDup_set_del x l : List.NoDup l -> List.NoDup (set_del x l).
Proof. intros H. unfold set_del. apply List.NoDup_filter. exact H. Qed.

Lemma NDB_find_peer b p : NDB b -> NDB (find_peer b p).
Proof.
  intros [H1 H2]. unfold find_peer. destruct (member_get (bk_members b) p); [split; assumption|].
  assert (forall ks c r, List.NoDup r -> List.NoDup (snd (fold_left (fun acc k => count_key acc p k) ks (c, r)))) as F.
  { induction ks as [|k ks IH]; intros c r Hr; cbn [fold_left]; [exact Hr|].
    unfold count_key at 2. cbn [fst snd]. destruct (cnt_inc c (k_ssid k)) as [c1 first].
    apply IH. destruct first; [apply NoDup_set_add; exact Hr | exact Hr]. }
  specialize (F (subs_of (bk_state b) p) [] (bk_remote b) H1).
  destruct (fold_left _ _ _) as [c r]. split; [exact F | exact H2].
Qed.

Lemma NDB_merge_entry_effect st0 acc k : NDB (fst acc) -> NDB (fst (merge_entry_effect st0 acc k)).
Proof.
  destruct acc as [b fresh]. cbn [fst]. intros [H1 H2]. unfold merge_entry_effect. destruct (k_peer k =? bk_name b); [split; assumption|].
  destruct (member_get (bk_members b) (k_peer k)) as [c0|] eqn:G.
  - destruct (existsb (N.eqb (k_peer k)) fresh); [split; assumption|].
    destruct (if negb (is_added (fetch st0 k)) && is_added (fetch (bk_state b) k) then cnt_inc c0 (k_ssid k) else (c0, false)) as [c1 first].
    destruct (if is_added (fetch st0 k) && negb (is_added (fetch (bk_state b) k)) then cnt_dec c1 (k_ssid k) else (c1, false)) as [c2 last].
    cbn [fst]. split; [|exact H2]. cbn [bk_remote].
    assert (List.NoDup (if first then set_add (k_ssid k, k_peer k) (bk_remote b) else bk_remote b)) as Y by (destruct first; [apply NoDup_set_add|]; exact H1).
    destruct last; [apply NoDup_set_del|]; exact Y.
  - cbn [fst]. apply NDB_find_peer. split; assumption.
Qed.

Lemma NDB_swarm_merge b payload : NDB b -> NDB (fst (swarm_merge b payload)).
Proof.
  intros H. unfold swarm_merge. destruct (state_merge (bk_state b) payload) as [st' [delta|]]; cbn [fst]; [|exact H].
  assert (forall (l : list (N * entry)) (acc : broker * list N), NDB (fst acc) ->
             NDB (fst (fold_left (fun acc ke => merge_entry_effect (bk_state b) acc (fst ke)) l acc))) as F.
  { induction l as [|x l IH]; intros acc Ha; cbn [fold_left]; [exact Ha|]. apply IH. apply NDB_merge_entry_effect. exact Ha. }
  apply F. exact H.
Qed.

Lemma NDB_peer_offline b p t : NDB b -> NDB (peer_offline b p t).
Proof.
  intros [H1 H2]. unfold peer_offline. destruct (member_get (bk_members b) p); [|split; assumption].
  split; [|exact H2]. cbn [bk_remote].
  assert (forall ks r, List.NoDup r -> List.NoDup (fold_left (fun r k => set_del (k_ssid k, p) r) ks r)) as F.
  { induction ks as [|k ks IH]; intros r Hr; cbn [fold_left]; [exact Hr|]. apply IH. apply NoDup_set_del. exact Hr. }
  apply F. exact H1.
Qed.

Definition WNDB (w : world) : Prop := forall n, NDB (get_broker w n).
Lemma WNDB_set w b' : WNDB w -> NDB b' -> WNDB (set_broker w b').
Proof. intros H Hb n. destruct (get_broker_set w b' n) as [->| ->]; [exact Hb | apply H]. Qed.
Lemma WNDB_links w w' : w_brokers w' = w_brokers w -> WNDB w -> WNDB w'.
Proof. intros E H n. rewrite (get_broker_ext w w' n E). apply H. Qed.

Lemma WNDB_step w e : WNDB w -> WNDB (step w e).
Proof.
  intros H. destruct e as [b conn ssid t | b conn ssid t | a b | a b | b p t | a b]; cbn [step] in *.
  - eapply WNDB_links; [apply fold_links_brokers; intros; apply link_bcast_brokers|]. apply WNDB_set; [exact H|].
    destruct (H b) as [H1 H2]. split; [exact H1 | apply NoDup_set_add; exact H2].
  - eapply WNDB_links; [apply fold_links_brokers; intros; apply link_bcast_brokers|]. apply WNDB_set; [exact H|].
    destruct (H b) as [H1 H2]. split; [exact H1 | apply NoDup_set_del; exact H2].
  - destruct (l_gossip (get_link w a b)) as [| |r] eqn:G.
    + destruct (l_bcast (get_link w a b)) as [payload|]; [|exact H].
      change (get_broker (upd_link w a b (fun _ => LK a b GNone None)) b) with (get_broker w b).
      destruct (swarm_merge (get_broker w b) payload) as [b' d] eqn:E.
      eapply WNDB_links; [reflexivity|]. apply WNDB_set; [eapply WNDB_links; [|exact H]; reflexivity|].
      change b' with (fst (b', d)). rewrite <- E. apply NDB_swarm_merge. apply H.
    + change (get_broker (upd_link w a b (fun l => LK a b GNone (l_bcast l))) b) with (get_broker w b).
      destruct (swarm_merge (get_broker w b) (bk_state (get_broker w a))) as [b' d] eqn:E.
      assert (WNDB (set_broker (upd_link w a b (fun l => LK a b GNone (l_bcast l))) b')) as H1.
      { apply WNDB_set; [eapply WNDB_links; [|exact H]; reflexivity|]. change b' with (fst (b', d)). rewrite <- E. apply NDB_swarm_merge. apply H. }
      destruct d as [delta|]; (eapply WNDB_links; [|exact H1]); [|reflexivity].
      rewrite fold_links_brokers; [reflexivity | intros; apply link_send_brokers].
    + change (get_broker (upd_link w a b (fun l => LK a b GNone (l_bcast l))) b) with (get_broker w b).
      destruct (swarm_merge (get_broker w b) r) as [b' d] eqn:E.
      assert (WNDB (set_broker (upd_link w a b (fun l => LK a b GNone (l_bcast l))) b')) as H1.
      { apply WNDB_set; [eapply WNDB_links; [|exact H]; reflexivity|]. change b' with (fst (b', d)). rewrite <- E. apply NDB_swarm_merge. apply H. }
      destruct d as [delta|]; (eapply WNDB_links; [|exact H1]); [|reflexivity].
      rewrite fold_links_brokers; [reflexivity | intros; apply link_send_brokers].
  - eapply WNDB_links; [|exact H]. reflexivity.
  - eapply WNDB_links; [reflexivity|]. apply WNDB_set; [exact H|]. apply NDB_peer_offline. apply H.
  - assert (WNDB (set_broker w (find_peer (get_broker w a) b))) as H1 by (apply WNDB_set; [exact H | apply NDB_find_peer; apply H]).
    eapply WNDB_links; [reflexivity|]. apply WNDB_set; [exact H1 | apply NDB_find_peer; apply H1].
Qed.

Lemma WNDB_run ns es : WNDB (run ns es).
Proof.
  assert (WNDB (world0 ns)) as H0.
  { intros n. unfold get_broker, world0. cbn [w_brokers]. induction ns as [|x ns IH]; cbn [map find]; [split; constructor|].
    cbn [broker0 bk_name]. destruct (x =? n); [split; constructor | exact IH]. }
  unfold run. revert H0. generalize (world0 ns). induction es as [|e es IH]; intros w H; cbn [fold_left]; [exact H|].
  apply IH. apply WNDB_step. exact H.
Qed.

Lemma nodup_app {A} (l1 l2 : list A) : List.NoDup l1 -> List.NoDup l2 -> (forall x, In x l1 -> ~ In x l2) -> List.NoDup (l1 ++ l2).
Proof.
  induction l1 as [|a l1 IH]; intros H1 H2 D; cbn [app]; [exact H2|]. inversion H1; subst. constructor.
  - intros X. apply in_app_or in X. destruct X as [X|X]; [contradiction | apply (D a (or_introl eq_refl) X)].
  - apply IH; [assumption | exact H2 | intros x Hx; apply D; right; exact Hx].
Qed.

Lemma NoDup_map_on_filter {B} (g : N * N -> B) s (l : list (N * N)) :
  (forall e e', fst e = s -> fst e' = s -> g e = g e' -> e = e') -> List.NoDup l ->
  List.NoDup (map g (filter (fun e => fst e =? s) l)).
Proof.
  intros Inj. induction l as [|a l IH]; intros H; cbn [filter map]; [constructor|]. inversion H; subst.
  destruct (fst a =? s) eqn:E; [|apply IH; assumption]. apply N.eqb_eq in E. cbn [map]. constructor; [|apply IH; assumption].
  intros X. apply in_map_iff in X. destruct X as (e & Eg & He). apply filter_In in He. destruct He as [He Ef]. apply N.eqb_eq in Ef.
  assert (e = a) as -> by (apply Inj; assumption). contradiction.
Qed.

Lemma NoDup_flat_map_tag {A} (F : N -> list (N * A)) (l : list N) :
  List.NoDup l -> (forall p, List.NoDup (F p)) -> (forall p x, In x (F p) -> fst x = p) -> List.NoDup (flat_map F l).
Proof.
  intros Hl HF Tag. induction l as [|p l IH]; cbn [flat_map]; [constructor|]. inversion Hl; subst.
  apply nodup_app; [apply HF | apply IH; assumption|].
  intros x Hx X. apply in_flat_map in X. destruct X as (q & Hq & Hxq). apply Tag in Hx. apply Tag in Hxq. congruence.
Qed.

Definition local_on (w : world) (s p : N) : list (N * N) :=
  map (fun e => (p, snd e)) (filter (fun e => fst e =? s) (bk_local (get_broker w p))).

Lemma receivers_eq w b s :
  receivers w b s = flat_map (local_on w s) (b :: map snd (filter (fun e => fst e =? s) (bk_remote (get_broker w b)))).
Proof. reflexivity. Qed.

Lemma in_local_on w s p n c : In (n, c) (local_on w s p) <-> n = p /\ In (s, c) (bk_local (get_broker w p)).
Proof.
  unfold local_on. rewrite in_map_iff. split.
  - intros ([s' c'] & E & H). injection E as <- <-. apply filter_In in H. destruct H as [H E]. cbn [fst] in E. apply N.eqb_eq in E. subst. auto.
  - intros [-> H]. exists (s, c). split; [reflexivity|]. apply filter_In. split; [exact H | apply N.eqb_refl].
Qed.

Lemma get_broker_in w n : In n (names w) -> In (get_broker w n) (w_brokers w).
Proof.
  unfold names, get_broker. induction (w_brokers w) as [|x r IH]; cbn [map find In]; [intros []|].
  destruct (bk_name x =? n) eqn:E; [left; reflexivity|]. intros [H|H]; [apply N.eqb_neq in E; contradiction | right; apply IH; exact H].
Qed.

Lemma get_broker_unique w x : List.NoDup (names w) -> In x (w_brokers w) -> get_broker w (bk_name x) = x.
Proof.
  unfold names, get_broker. induction (w_brokers w) as [|y r IH]; cbn [map find In]; intros ND H; [destruct H|]. inversion ND; subst.
  destruct H as [->|H]; [rewrite N.eqb_refl; reflexivity|].
  destruct (bk_name y =? bk_name x) eqn:E; [|apply IH; assumption].
  apply N.eqb_eq in E. exfalso. match goal with X : ~ In (bk_name y) _ |- _ => apply X end. rewrite E. apply in_map. exact H.
Qed.

(* a publish at any broker reaches exactly the live subscribers of the channel, each once *)
Theorem quiescent_delivery ns es :
  nodupb ns = true -> sched_okb ns ghost0 es = true -> all_upb ns (grun es) = true -> quiet (run ns es) = true ->
  forall b s, In b ns ->
    List.NoDup (receivers (run ns es) b s)
    /\ forall x, In x (receivers (run ns es) b s) <-> In x (live_subscribers (run ns es) s).
Proof.
  intros ND Hs Up Q b s Hb. apply nodupb_ok in ND. apply sched_okb_ok in Hs. apply all_upb_ok in Up.
  pose proof (CONV_run ns es ND Hs) as C. pose proof (WNSR_run ns es (sched_ok_wf ns es _ Hs)) as NS. pose proof (WNDB_run ns es) as NB.
  pose proof (quiescent_routing_is_the_truth ns _ _ C Up Q) as R.
  set (w := run ns es) in *. destruct (c_winv _ _ _ C b) as [_ Hnb]. rewrite receivers_eq. split.
  - apply NoDup_flat_map_tag.
    + constructor.
      * intros X. apply in_map_iff in X. destruct X as ([s' p] & E & H). cbn [snd] in E. subst p. apply filter_In in H. destruct H as [H E].
        cbn [fst] in E. apply N.eqb_eq in E. subst s'. apply (NS b s). rewrite Hnb. exact H.
      * apply NoDup_map_on_filter; [|apply NB]. intros [s1 p1] [s2 p2]. cbn. intros -> -> ->. reflexivity.
    + intros p. unfold local_on. apply NoDup_map_on_filter; [|apply NB]. intros [s1 c1] [s2 c2]. cbn. intros -> -> E. injection E as ->. reflexivity.
    + intros p [n c] H. apply in_local_on in H. cbn. apply H.
  - intros [n c]. rewrite in_flat_map. unfold live_subscribers. rewrite in_flat_map. split.
    + intros (p & Hp & H). apply in_local_on in H. destruct H as [E H]. subst p. exists (get_broker w n).
      assert (In n ns) as Hn.
      { destruct Hp as [<-|Hp]; [exact Hb|]. apply in_map_iff in Hp. destruct Hp as ([s' p] & E & Hr). cbn [snd] in E. subst p.
        apply filter_In in Hr. destruct Hr as [Hr E]. cbn [fst] in E. apply N.eqb_eq in E. subst s'.
        apply (route_target_in ns w _ b n s C); [|exact Hr]. intros ->. apply (NS b s). rewrite Hnb. exact Hr. }
      split; [apply get_broker_in; rewrite (c_names _ _ _ C); exact Hn|].
      rewrite (proj2 (c_winv _ _ _ C n)). apply in_map_iff. exists (s, c). split; [reflexivity|]. apply filter_In. split; [exact H | apply N.eqb_refl].
    + intros (x & Hx & H). apply in_map_iff in H. destruct H as ([s' c'] & E & H). injection E as <- <-. apply filter_In in H. destruct H as [H E].
      cbn [fst] in E. apply N.eqb_eq in E. subst s'.
      assert (get_broker w (bk_name x) = x) as Ex by (apply get_broker_unique; [rewrite (c_names _ _ _ C); exact ND | exact Hx]).
      assert (In (bk_name x) ns) as Hn by (rewrite <- (c_names _ _ _ C); apply in_map; exact Hx).
      exists (bk_name x). split; [|apply in_local_on; split; [reflexivity | rewrite Ex; exact H]].
      destruct (N.eq_dec b (bk_name x)) as [E|Nb]; [left; exact E|]. right.
      apply in_map_iff. exists (s, bk_name x). split; [reflexivity|]. apply filter_In. split; [|apply N.eqb_refl].
      apply (R b (bk_name x) Hb Hn Nb s). exists c'. rewrite Ex. exact H.
Qed.
