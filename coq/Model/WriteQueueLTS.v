(* listener.Conn.Write / Flush under concurrency, as a labelled transition system at the
   granularity of the connection's RWMutex and of net.Conn.Write (each an atomic step):
   any number of writer threads (publishers delivering to this subscriber) and the periodic
   flusher.  A packet is (thread, sequence number); the socket is the list of packets written. *)
From Coq Require Import List Arith Lia Bool.
Import ListNotations.

Definition wpkt := (nat * nat)%type.

Inductive pc :=
| Idle            (* between calls *)
| W1              (* Write: limiter said "not limited"; about to read Len() *)
| WEnqOnly        (* Write: limited; about to enqueue and return *)
| W2              (* Write: Len() > 0 was read; about to enqueue, then Flush *)
| F0              (* Flush: about to read Len() *)
| F1              (* Flush: Len() > 0 was read; about to lock, write the buffer, reset, unlock *)
| WDirect.        (* Write: Len() = 0 was read; about to write directly to the socket *)

Record thread := Th { tpc : pc; done : nat; total : nat }.
Record lst := L { sock : list wpkt; queue : list wpkt; thr : nat -> thread }.

Definition upd (f : nat -> thread) (i : nat) (t : thread) : nat -> thread :=
  fun j => if Nat.eqb j i then t else f j.
Definition cur (i : nat) (t : thread) : wpkt := (i, done t).

Inductive lstep : lst -> lst -> Prop :=
| s_start_limited s i : tpc (thr s i) = Idle -> done (thr s i) < total (thr s i) ->
    lstep s (L (sock s) (queue s) (upd (thr s) i (Th WEnqOnly (done (thr s i)) (total (thr s i)))))
| s_start_free s i : tpc (thr s i) = Idle -> done (thr s i) < total (thr s i) ->
    lstep s (L (sock s) (queue s) (upd (thr s) i (Th W1 (done (thr s i)) (total (thr s i)))))
| s_enq_only s i : tpc (thr s i) = WEnqOnly ->
    lstep s (L (sock s) (queue s ++ [cur i (thr s i)]) (upd (thr s) i (Th Idle (S (done (thr s i))) (total (thr s i)))))
| s_len_pos s i : tpc (thr s i) = W1 -> queue s <> [] ->
    lstep s (L (sock s) (queue s) (upd (thr s) i (Th W2 (done (thr s i)) (total (thr s i)))))
| s_len_zero s i : tpc (thr s i) = W1 -> queue s = [] ->
    lstep s (L (sock s) (queue s) (upd (thr s) i (Th WDirect (done (thr s i)) (total (thr s i)))))
| s_enq_flush s i : tpc (thr s i) = W2 ->
    lstep s (L (sock s) (queue s ++ [cur i (thr s i)]) (upd (thr s) i (Th F0 (S (done (thr s i))) (total (thr s i)))))
| s_f0_zero s i : tpc (thr s i) = F0 -> queue s = [] ->
    lstep s (L (sock s) (queue s) (upd (thr s) i (Th Idle (done (thr s i)) (total (thr s i)))))
| s_f0_pos s i : tpc (thr s i) = F0 -> queue s <> [] ->
    lstep s (L (sock s) (queue s) (upd (thr s) i (Th F1 (done (thr s i)) (total (thr s i)))))
| s_f1 s i : tpc (thr s i) = F1 ->
    lstep s (L (sock s ++ queue s) [] (upd (thr s) i (Th Idle (done (thr s i)) (total (thr s i)))))
| s_direct s i : tpc (thr s i) = WDirect ->
    lstep s (L (sock s ++ [cur i (thr s i)]) (queue s) (upd (thr s) i (Th Idle (S (done (thr s i))) (total (thr s i)))))
(* the periodic flusher (or any caller of Flush) starts a flush at any time it is idle *)
| s_timer s i : tpc (thr s i) = Idle ->
    lstep s (L (sock s) (queue s) (upd (thr s) i (Th F0 (done (thr s i)) (total (thr s i))))).

Inductive reachable (s0 : lst) : lst -> Prop :=
| r_refl : reachable s0 s0
| r_step s s' : reachable s0 s -> lstep s s' -> reachable s0 s'.

Definition proj (i : nat) (l : list wpkt) : list nat :=
  map snd (filter (fun p => Nat.eqb (fst p) i) l).

Definition linit (totals : nat -> nat) : lst := L [] [] (fun i => Th Idle 0 (totals i)).
