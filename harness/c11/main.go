// Harness for C11: key-generation and link-extension requests against the real keygen service
// (real cipher, single-contract provider, broker.Service as authorizer).
package main

import (
	"bufio"
	"context"
	"encoding/json"
	"fmt"
	"net"
	"time"

	"github.com/emitter-io/emitter/internal/broker"
	"github.com/emitter-io/emitter/internal/config"
	"github.com/emitter-io/emitter/internal/errors"
	"github.com/emitter-io/emitter/internal/network/mqtt"
	"github.com/emitter-io/emitter/internal/provider/contract"
	"github.com/emitter-io/emitter/internal/provider/logging"
	"github.com/emitter-io/emitter/internal/provider/usage"
	"github.com/emitter-io/emitter/internal/security"
	"github.com/emitter-io/emitter/internal/security/license"
	"github.com/emitter-io/emitter/internal/service/fake"
	"github.com/emitter-io/emitter/internal/service/keygen"
	"github.com/emitter-io/emitter/internal/zzverif/vlib"
)

var cfg *vlib.Config

type quiet struct{}

func (quiet) Name() string                                  { return "quiet" }
func (quiet) Configure(config map[string]interface{}) error { return nil }
func (quiet) Printf(format string, v ...interface{})        {}

// ---- using an extendable key as if it were a channel key ------------------------------------------------

type extClient struct {
	conn net.Conn
	pkts chan mqtt.Message
}

func newExtClient(svc *broker.Service) *extClient {
	a, b := net.Pipe()
	c := &extClient{conn: a, pkts: make(chan mqtt.Message, 256)}
	svc.VerifAttach(b)
	go func() {
		rd := bufio.NewReaderSize(a, 65536)
		for {
			m, err := mqtt.DecodePacket(rd, 1<<20)
			if err != nil {
				close(c.pkts)
				return
			}
			c.pkts <- m
		}
	}()
	return c
}

func (c *extClient) roundTrip(m mqtt.Message, ack uint8) (got []mqtt.Message) {
	m.EncodeTo(c.conn)
	timeout := time.After(3 * time.Second)
	for {
		select {
		case p, ok := <-c.pkts:
			if !ok {
				return
			}
			got = append(got, p)
			if p.Type() == ack {
				return
			}
		case <-timeout:
			return
		}
	}
}

// extUse: a client presents an extendable key (with read and write permission on a/) in a link request
// that asks to be subscribed, in a SUBSCRIBE and in a PUBLISH.  Observed: how many subscriptions the
// broker's index holds for that client afterwards, whether a second client's publish on a/ reached it,
// whether its own publish reached a subscriber of a/.
func extUse(svc *broker.Service, extKey, plainKey, wideKey string, how int) (held int, received, delivered bool) {
	before, _ := svc.VerifTrie().VerifDump()
	_ = before
	_, pairs0 := svc.VerifTrie().VerifDump()
	x := newExtClient(svc)
	x.roundTrip(&mqtt.Connect{ClientID: []byte("ext")}, mqtt.TypeOfConnack)
	other := newExtClient(svc)
	other.roundTrip(&mqtt.Connect{ClientID: []byte("other")}, mqtt.TypeOfConnack)
	other.roundTrip(&mqtt.Subscribe{Header: mqtt.Header{QOS: 1}, MessageID: 1, Subscriptions: []mqtt.TopicQOSTuple{{Topic: []byte(plainKey + "/a/")}}}, mqtt.TypeOfSuback)
	_, pairs1 := svc.VerifTrie().VerifDump()
	switch how {
	case 0: // link request with subscribe: true
		req, _ := json.Marshal(map[string]interface{}{"name": "l1", "key": extKey, "channel": "a/", "subscribe": true})
		x.roundTrip(&mqtt.Publish{Header: mqtt.Header{QOS: 1}, MessageID: 2, Topic: []byte("emitter/link/"), Payload: req}, mqtt.TypeOfPuback)
	case 1: // plain SUBSCRIBE
		x.roundTrip(&mqtt.Subscribe{Header: mqtt.Header{QOS: 1}, MessageID: 2, Subscriptions: []mqtt.TopicQOSTuple{{Topic: []byte(extKey + "/a/")}}}, mqtt.TypeOfSuback)
	case 3, 4: // SUBSCRIBE with a wildcard under / over the key's channel
		topic := extKey + "/a/+/"
		if how == 4 {
			topic = extKey + "/a/#/"
		}
		x.roundTrip(&mqtt.Subscribe{Header: mqtt.Header{QOS: 1}, MessageID: 2, Subscriptions: []mqtt.TopicQOSTuple{{Topic: []byte(topic)}}}, mqtt.TypeOfSuback)
	case 2: // link without subscription, then publish through the link
		req, _ := json.Marshal(map[string]interface{}{"name": "l1", "key": extKey, "channel": "a/", "subscribe": false})
		x.roundTrip(&mqtt.Publish{Header: mqtt.Header{QOS: 1}, MessageID: 2, Topic: []byte("emitter/link/"), Payload: req}, mqtt.TypeOfPuback)
	}
	_, pairs2 := svc.VerifTrie().VerifDump()
	held = len(pairs2) - len(pairs1)
	_ = pairs0
	// a publish by the other client on a/: does the extendable-key client get it?
	for _, m := range x.roundTrip(&mqtt.Pingreq{}, mqtt.TypeOfPingresp) {
		_ = m
	}
	other.roundTrip(&mqtt.Publish{Header: mqtt.Header{QOS: 1}, MessageID: 3, Topic: []byte(plainKey + "/a/"), Payload: []byte("from-other")}, mqtt.TypeOfPuback)
	other.roundTrip(&mqtt.Publish{Header: mqtt.Header{QOS: 1}, MessageID: 6, Topic: []byte(wideKey + "/a/x/"), Payload: []byte("from-other")}, mqtt.TypeOfPuback)
	for _, m := range x.roundTrip(&mqtt.Pingreq{}, mqtt.TypeOfPingresp) {
		if p, ok := m.(*mqtt.Publish); ok && string(p.Payload) == "from-other" {
			received = true
		}
	}
	// a publish by the extendable-key client (directly, and through its link): does the subscriber get it?
	x.roundTrip(&mqtt.Publish{Header: mqtt.Header{QOS: 1}, MessageID: 4, Topic: []byte(extKey + "/a/"), Payload: []byte("from-ext")}, mqtt.TypeOfPuback)
	x.roundTrip(&mqtt.Publish{Header: mqtt.Header{QOS: 1}, MessageID: 5, Topic: []byte("l1"), Payload: []byte("from-ext")}, mqtt.TypeOfPuback)
	for _, m := range other.roundTrip(&mqtt.Pingreq{}, mqtt.TypeOfPingresp) {
		if p, ok := m.(*mqtt.Publish); ok && string(p.Payload) == "from-ext" {
			delivered = true
		}
	}
	x.conn.Close()
	other.conn.Close()
	time.Sleep(50 * time.Millisecond)
	return
}

func main() {
	cfg = vlib.ParseFlags()
	r := cfg.Rng
	sh := vlib.NewShards(cfg.Out, "C11", "From Emitter Require Import Lib.Base Model.MsgCodec Model.Channel Model.Cipher Model.Key Check.C11.", "case", "check", 120)

	channels := []string{"a/", "a/b/", "a/b/c/", "a/+/c/", "+/b/", "a/#/", "#/", "a/b/#/", "a", "a/b", "", "/", "a b/", "a//b/", "a/b#/", "x#/", "a/#b/", "a/b+/", "a/+b/", "#a/", "a/b/#", "a/#/#/", "users/bob#/", "a/b/c/d/e/f/g/h/i/j/k/l/m/n/o/p/q/r/s/t/u/v/w/x/", "x/y/"}
	types := []string{"r", "w", "rw", "rwslp", "rwslpex", "e", "re", "x", "", "zzz", "rwq", "slp", "rwe", "p"}
	ttls := []int32{0, 0, 1, 60, 3600, 86400 * 365, 2147483647, -1, -3600, -2147483648, -600000000, -(int32(time.Now().Unix()) - 10)}

	for _, lic := range []license.License{license.NewV1(), license.NewV2(), license.NewV3()} {
		c := config.NewDefault().(*config.Config)
		c.License = lic.String()
		c.Cluster = nil
		svc, err := broker.NewService(context.Background(), c)
		if err != nil {
			panic(err)
		}
		logging.Logger = quiet{}
		cipher, _ := lic.Cipher()
		provider := contract.NewSingleContractProvider(lic, usage.NewNoop())
		kg := keygen.New(cipher, provider, svc)
		now0 := time.Now().Unix()

		mkParent := func(kind int) (security.Key, string, string) {
			k := security.Key(make([]byte, 24))
			k.SetSalt(uint16(r.Intn(65536)))
			k.SetMaster(1)
			k.SetContract(lic.Contract())
			k.SetSignature(lic.Signature())
			name := ""
			switch kind {
			case 0:
				k.SetPermissions(security.AllowMaster)
				name = "master"
			case 1: // extendable, random other permissions
				k.SetPermissions(security.AllowExtend | uint8(r.Intn(256))&^security.AllowMaster)
				k.SetTarget(vlib.Pick2(r, "a/", "a/b/", "x/y/"))
				name = "extendable"
			case 2: // ordinary
				k.SetPermissions(uint8(r.Intn(256)) &^ (security.AllowExtend | security.AllowMaster))
				k.SetTarget("a/")
				name = "ordinary"
			case 3: // expired master
				k.SetPermissions(security.AllowMaster)
				k.SetExpires(time.Unix(now0-5000, 0))
				name = "expired-master"
			case 4: // master of a foreign contract
				k.SetPermissions(security.AllowMaster)
				k.SetContract(lic.Contract() + 7)
				name = "foreign-master"
			case 5: // master with a wrong signature
				k.SetPermissions(security.AllowMaster)
				k.SetSignature(lic.Signature() + 1)
				name = "bad-signature-master"
			case 6: // master bit together with other bits: not a master key
				k.SetPermissions(security.AllowMaster | security.AllowRead)
				name = "master-plus-read"
			case 7: // expired extendable
				k.SetPermissions(security.AllowExtend | security.AllowRead)
				k.SetTarget("a/")
				k.SetExpires(time.Unix(now0-5000, 0))
				name = "expired-extendable"
			}
			enc, _ := cipher.EncryptKey(k)
			return k, enc, name
		}

		// a pool of parent keys that are presented again and again (a key string is long-lived)
		type par struct {
			k    security.Key
			enc  string
			name string
			kind int
		}
		var pool []par
		for _, kind := range []int{0, 0, 1, 1, 1, 2, 3, 4, 5, 6, 7} {
			k, e, nme := mkParent(kind)
			pool = append(pool, par{k, e, nme, kind})
		}
		n := 250 * cfg.Mult
		for i := 0; i < n; i++ {
			pp := pool[r.Intn(len(pool))]
			kind := pp.kind
			parent, penc, pname := pp.k, pp.enc, pp.name
			if r.Intn(5) == 0 {
				kind = []int{0, 0, 0, 1, 1, 1, 2, 3, 4, 5, 6, 7}[r.Intn(12)]
				parent, penc, pname = mkParent(kind)
			}
			parentTerm := vlib.App("Ok", vlib.Bytes(parent))
			if r.Intn(25) == 0 {
				penc = string(vlib.RandBytes(r, 32))
				parentTerm = "(Err KCorrupt)"
				pname = "garbage"
			}
			ch := channels[r.Intn(len(channels))]
			if kind == 1 && r.Intn(3) != 0 { // extension requests mostly on the extendable channel
				ch = vlib.Pick2(r, "a/", "a/b/", "x/y/", "a/#/", "a/b/#/")
			}
			ty := types[r.Intn(len(types))]
			ttl := ttls[r.Intn(len(ttls))]
			conn := &fake.Conn{ConnID: 1000 + r.Intn(5)}
			payload, _ := json.Marshal(map[string]interface{}{"key": penc, "channel": ch, "type": ty, "ttl": ttl})
			t0 := time.Now().Unix()
			var resp interface{}
			var ok bool
			p, _ := vlib.Catch(func() { resp, ok = kg.OnRequest(conn, payload) })
			outcome := ""
			switch {
			case p:
				outcome = "GPanic"
			case ok:
				rr := resp.(*keygen.Response)
				dk, derr := cipher.DecryptKey([]byte(rr.Key))
				if derr != nil {
					outcome = "GPanic"
				} else {
					outcome = vlib.App("GOk", vlib.Bytes(dk), vlib.Str(rr.Channel))
				}
			default:
				e, _ := resp.(*errors.Error)
				code := "EOther"
				switch e {
				case errors.ErrUnauthorized:
					code = "GUnauthorized"
				case errors.ErrNotFound:
					code = "GNotFound"
				case errors.ErrTargetInvalid:
					code = "GTargetInvalid"
				case errors.ErrTargetTooLong:
					code = "GTargetTooLong"
				case errors.ErrBadRequest:
					code = "GBadRequest"
				default:
					code = "GOther"
				}
				outcome = vlib.App("GErr", code)
			}
			expires := int64(0)
			if ttl != 0 {
				expires = t0 + int64(ttl)
			}
			defer func() {}()
			sh.Add(vlib.App("CGen", parentTerm, vlib.Str(penc),
				vlib.App("Contract", vlib.N(uint64(lic.Contract())), "1", vlib.N(uint64(lic.Signature())), "true"),
				vlib.Z(t0), vlib.Str(ch), vlib.Str(ty), vlib.Z(int64(ttl)), vlib.Z(expires), vlib.Str(fmt.Sprintf("%d", conn.ConnID)), outcome),
				map[string]interface{}{"op": "keygen", "parent": pname, "channel": ch, "type": ty, "ttl": ttl}, "keygen/"+pname, true)
			// the parent key string is presented again afterwards: it must still be the same key
			if parentTerm != "(Err KCorrupt)" {
				for _, pr := range []struct {
					ch   string
					perm uint8
				}{{"a/", security.AllowExtend}, {"a/", security.AllowRead}, {"a/1001/", security.AllowRead}, {"a/b/", security.AllowExtend}, {"x/y/", security.AllowWrite}} {
					text := penc + "/" + pr.ch
					pch := security.ParseChannel([]byte(text))
					ok2 := false
					vlib.Catch(func() { _, _, ok2 = svc.Authorize(pch, pr.perm) })
					sh.Add(vlib.App("CProbe", parentTerm, vlib.Str(penc),
						vlib.App("Contract", vlib.N(uint64(lic.Contract())), "1", vlib.N(uint64(lic.Signature())), "true"),
						vlib.Z(t0), vlib.Str(text), vlib.N(uint64(pr.perm)), vlib.Bool(ok2)),
						map[string]interface{}{"op": "authorize parent again", "parent": pname, "channel": pr.ch, "perm": pr.perm}, "probe/"+pname, true)
				}
			}
		}
		// the same service called the way the HTTP key-generation form calls it: CreateKey directly
		for i := 0; i < 80*cfg.Mult; i++ {
			pp := pool[r.Intn(len(pool))]
			parentTerm := vlib.App("Ok", vlib.Bytes(pp.k))
			penc, pname := pp.enc, pp.name
			if r.Intn(25) == 0 {
				penc, parentTerm, pname = string(vlib.RandBytes(r, 32)), "(Err KCorrupt)", "garbage"
			}
			ch := channels[r.Intn(len(channels))]
			access := uint8(r.Intn(256))
			ttl := ttls[r.Intn(len(ttls))]
			t0 := time.Now().Unix()
			expires := int64(0)
			exp := time.Unix(0, 0)
			if ttl != 0 {
				expires = t0 + int64(ttl)
				exp = time.Unix(expires, 0)
			}
			var key string
			var kerr *errors.Error
			p, _ := vlib.Catch(func() { key, kerr = kg.CreateKey(penc, ch, access, exp) })
			outcome := ""
			switch {
			case p:
				outcome = "GPanic"
			case kerr == nil:
				dk, derr := cipher.DecryptKey([]byte(key))
				if derr != nil {
					outcome = "GPanic"
				} else {
					outcome = vlib.App("GOk", vlib.Bytes(dk), "[]")
				}
			default:
				code := "GOther"
				switch kerr {
				case errors.ErrUnauthorized:
					code = "GUnauthorized"
				case errors.ErrNotFound:
					code = "GNotFound"
				case errors.ErrTargetInvalid:
					code = "GTargetInvalid"
				case errors.ErrTargetTooLong:
					code = "GTargetTooLong"
				case errors.ErrBadRequest:
					code = "GBadRequest"
				}
				outcome = vlib.App("GErr", code)
			}
			sh.Add(vlib.App("CCreate", parentTerm, vlib.Str(penc),
				vlib.App("Contract", vlib.N(uint64(lic.Contract())), "1", vlib.N(uint64(lic.Signature())), "true"),
				vlib.Z(t0), vlib.Str(ch), vlib.N(uint64(access)), vlib.Z(expires), outcome),
				map[string]interface{}{"op": "CreateKey (HTTP form path)", "parent": pname, "channel": ch, "access": access, "ttl": ttl}, "createkey/"+pname, true)
		}
		// an extendable key is for extension only: used as a channel key it must give nothing
		for how := 0; how < 5; how++ {
			mk := func(perms uint8) string {
				k := security.Key(make([]byte, 24))
				k.SetSalt(uint16(r.Intn(65536)))
				k.SetMaster(1)
				k.SetContract(lic.Contract())
				k.SetSignature(lic.Signature())
				k.SetPermissions(perms)
				k.SetTarget("a/")
				e, _ := cipher.EncryptKey(k)
				return e
			}
			wide := func() string {
				k := security.Key(make([]byte, 24))
				k.SetSalt(uint16(r.Intn(65536)))
				k.SetMaster(1)
				k.SetContract(lic.Contract())
				k.SetSignature(lic.Signature())
				k.SetPermissions(security.AllowRead | security.AllowWrite)
				k.SetTarget("a/#/")
				e, _ := cipher.EncryptKey(k)
				return e
			}()
			held, received, delivered := extUse(svc, mk(security.AllowExtend|security.AllowRead|security.AllowWrite), mk(security.AllowRead|security.AllowWrite), wide, how)
			sh.Add(vlib.App("CExtUse", vlib.N(uint64(how)), vlib.Z(int64(held)), vlib.Bool(received), vlib.Bool(delivered)),
				map[string]interface{}{"op": "extendable key used as a channel key", "how": []string{"link+subscribe", "subscribe", "link, publish", "subscribe a/+/", "subscribe a/#/"}[how], "subscriptions_gained": held, "received_a_message": received, "its_publish_was_delivered": delivered}, "extendable-as-channel-key", true)
		}
		svc.Close()
	}
	sh.Finish("keygen requests through the real keygen.Service under each licence version: parents master / extendable with random masks / ordinary / expired / foreign contract / wrong signature / master+other bits / undecryptable; 16 channels (valid, wildcard, '#/', missing slash, empty, 24 levels), 14 type strings (every letter, junk), 12 ttl values (0, positive, 2^31-1, negative incl. -2^31); an extendable key with read and write permission presented to a real broker in a link request with subscribe, a SUBSCRIBE and a PUBLISH (also through a link); the same parents through CreateKey directly (the HTTP form's path) with every access byte; non-trivial: all")
}
