(* C06 at the request level: what an emitter/history/ request answers is the store's answer for the
   channel text's contract, query, window and 'last' option (default 1), without continuation; a
   request that fails parsing or authorization gets an error and nothing of the store. *)
From Coq Require Import Lia.
From Emitter Require Import Lib.Base Model.MsgCodec Model.Murmur Model.Channel Model.Cipher Model.Key
     Model.Trie Model.Store Model.Broker.

Section generic.
Context {I : Type} (X : ixops I).
Notation broker := (@broker I).

Lemma history_word : (h_history =? h_me) = false /\ (h_history =? h_link) = false.
Proof. vm_compute. split; reflexivity. Qed.

Theorem history_request_is_the_query e (b : broker) i c ch mid channel :
  c_query ch = [h_history] ->
  let hc := parse_channel channel in
  on_emitter X e b i c ch mid (EHistory channel) =
  if c_type hc =? ChannelInvalid then emit b i (PHistory mid 400 [])
  else match auth e hc AllowLoad with
       | None => emit b i (PHistory mid 401 [])
       | Some k =>
         let limit := match get_option s_last (c_opts hc) with Some v => Z.to_N v | None => 1 end in
         emit b i (PHistory mid 200
                     (map (fun m => (m_chan m, m_payload m))
                          (query (b_store b) (e_now e) (key_contract k :: c_query hc)
                                 (fst (chan_window hc)) (snd (chan_window hc)) [] limit)))
       end.
Proof.
  intros Q hc. unfold on_emitter. rewrite Q. destruct history_word as [E1 E2]. rewrite E1, E2, N.eqb_refl. fold hc.
  destruct (c_type hc =? ChannelInvalid); [reflexivity|]. destruct (auth e hc AllowLoad) as [k|]; [|reflexivity].
  destruct (chan_window hc) as [t0 t1]. reflexivity.
Qed.

(* the request changes nothing but the requester's output *)
Theorem history_request_only_answers e (b : broker) i c ch mid channel :
  c_query ch = [h_history] ->
  let b' := on_emitter X e b i c ch mid (EHistory channel) in
  b_trie b' = b_trie b /\ b_conns b' = b_conns b /\ b_store b' = b_store b /\ b_queue b' = b_queue b
  /\ exists p, b_out b' = b_out b ++ [(i, p)].
Proof.
  intros Q b'. unfold b'. rewrite (history_request_is_the_query e b i c ch mid channel Q). cbv zeta.
  destruct (c_type _ =? ChannelInvalid); [cbn; repeat split; eexists; reflexivity|].
  destruct (auth e _ AllowLoad); cbn; repeat split; eexists; reflexivity.
Qed.
End generic.
