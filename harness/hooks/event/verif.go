//go:build verif

package event

import "github.com/emitter-io/emitter/internal/event/crdt"

// VerifDump returns every entry (tombstones included) of every subset of the state.
func (st *State) VerifDump() map[uint8]map[string]crdt.Value {
	out := map[uint8]map[string]crdt.Value{}
	for typ, set := range st.subsets {
		m := map[string]crdt.Value{}
		set.Range(nil, true, func(k string, v crdt.Value) bool {
			m[k] = append(crdt.Value{}, v...)
			return true
		})
		out[typ] = m
	}
	return out
}

// VerifDurable reports whether the state uses the durable backend.
func (st *State) VerifDurable() bool { return st.durable }

// VerifBanExpires reports whether the persisted record of a ban carries an expiry time.
func (st *State) VerifBanExpires(ev Event) bool {
	if d, ok := st.subsets[typeBan].(*crdt.Durable); ok {
		return d.VerifExpires(ev.Key())
	}
	return false
}
