(* Correspondence cases of C19. *)
From Emitter Require Import Lib.Base Model.MsgCodec Model.PeerQueue.

Inductive qop := QSend (m : msg) (active : bool) | QFlush.

Inductive case :=
| CMsg (m : msg) (impl_inner : bytes) (impl_dec : res cerr msg)
| CFrame (f : list msg) (impl_inner : bytes) (impl_dec : res cerr (list msg))
(* damaged encodings handed to the decoders *)
| CRawMsg (inner : bytes) (impl_dec : res cerr msg)
| CRawFrame (inner : bytes) (impl_dec : res cerr (list msg))
| CId (ssid : list N) (now : Z) (seq unique : N) (impl_id : bytes) (impl_ssid : list N) (impl_contract : N) (impl_time : Z)
| CIdTime (before : bytes) (t : Z) (after : bytes) (impl_time : Z)
| CIdOrder (a b : bytes)
(* ids created concurrently: how many were equal to an earlier one, how many broke their creator's order *)
| CIdStress (n dups disorder : N)
| CSplit (f : list msg) (max : N) (h t : list msg)
| CQueue (ops : list qop) (sent : list (list msg))
(* concurrent publishers vs the flusher: the (publisher, sequence number) pairs in the order the
   transport received them *)
| CQStress (pubs per : N) (seq : list (N * N)).

Definition msg_eqb (a b : msg) : bool :=
  bytes_eqb (m_id a) (m_id b) && bytes_eqb (m_chan a) (m_chan b) && bytes_eqb (m_payload a) (m_payload b)
  && (m_ttl a =? m_ttl b).
Definition frame_eqb := list_eqb msg_eqb.

Definition cres_eqb {A} (eq : A -> A -> bool) (a b : res cerr A) : bool :=
  match a, b with
  | Ok x, Ok y => eq x y
  | Err _, Err _ => true
  | Panic, Panic => true
  | _, _ => false
  end.

Definition ures_eqb {A} (eq : A -> A -> bool) (a : res unit A) (b : A) : bool :=
  match a with Ok x => eq x b | _ => false end.

Definition id_set_time (id : bytes) (t : Z) : bytes :=
  take 4 id ++ be32 (maxU32 - u32z (t - id_offset)) ++ drop 8 id.

Definition maxByteFrameSize : N := 10 * 1024 * 1024.

(* processSendQueue = tick, then chunk rounds until the swapped frame is consumed or dropped *)
Fixpoint chunks (fuel : nat) (s : pq) : pq :=
  match fuel with
  | O => s
  | S f => match q_swapped s with [] => s | _ => chunks f (pq_step s (PChunk maxByteFrameSize)) end
  end.
Definition q_apply (s : pq) (o : qop) : pq :=
  match o with
  | QSend m a => pq_step s (PSend m a)
  | QFlush => let s1 := pq_step s PTick in chunks (S (length (q_swapped s1))) s1
  end.

Definition sent_of (ops : list qop) : list msg :=
  flat_map (fun o => match o with QSend m true => [m] | _ => [] end) ops.

(* each publisher's messages appear exactly once and in order *)

Fixpoint bump (exp : list N) (w : nat) : list N :=
  match exp, w with
  | [], _ => []
  | x :: r, O => (x + 1) :: r
  | x :: r, S k => x :: bump r k
  end.
Definition stress_ok (pubs per : N) (seq : list (N * N)) : bool :=
  let fin := fold_left (fun (st : option (list N)) e =>
                          match st with
                          | None => None
                          | Some exp =>
                            match nth_error exp (N.to_nat (fst e)) with
                            | Some x => if x =? snd e then Some (bump exp (N.to_nat (fst e))) else None
                            | None => None
                            end
                          end) seq (Some (repeat 0 (N.to_nat pubs))) in
  match fin with
  | Some exp => forallb (fun x => x =? per) exp
  | None => false
  end.

(* DecodeFrame: the announced count is bounded by a quarter of the payload before decoding *)
Definition dec_frame_guarded19 (d : bytes) : res cerr (list msg) :=
  match read_uvarint d with
  | Ok (n, _) => if len d / 4 <? n then Err CEOF else dec_frame d
  | _ => dec_frame d
  end.

Definition check (c : case) : N :=
  match c with
  | CMsg m inner d =>
    bit (bytes_eqb (enc_msg m) inner) 1
    |+| bit (cres_eqb msg_eqb (match dec_msg inner with Ok (x, _) => Ok x | Err e => Err e | Panic => Panic end) d) 1
    |+| bit (cres_eqb msg_eqb d (Ok m)) 2                 (* oracle: survives encode/decode unchanged *)
  | CRawMsg inner d =>
    bit (cres_eqb msg_eqb (match dec_msg inner with Ok (x, _) => Ok x | Err e => Err e | Panic => Panic end) d) 1
  | CRawFrame inner d =>
    bit (cres_eqb frame_eqb (dec_frame_guarded19 inner) d) 1
  | CFrame f inner d =>
    bit (bytes_eqb (enc_frame f) inner) 1
    |+| bit (cres_eqb frame_eqb (dec_frame inner) d) 1
    |+| bit (cres_eqb frame_eqb d (Ok f)) 2
  | CId ssid now seq unique iid issid ic it =>
    bit (ures_eqb bytes_eqb (new_id ssid now seq unique) iid) 1
    |+| bit (ures_eqb (list_eqb N.eqb) (id_ssid iid) issid) 1
    |+| bit (ures_eqb N.eqb (id_contract iid) ic) 1
    |+| bit (ures_eqb Z.eqb (id_time iid) it) 1
    (* oracle: the id gives back ssid, contract and creation second *)
    |+| bit (list_eqb N.eqb issid ssid) 2 |+| bit (ic =? hd 0 ssid) 2 |+| bit (Z.eqb it now) 2
  | CIdTime before t after it =>
    bit (bytes_eqb (id_set_time before t) after) 1
    |+| bit (ures_eqb Z.eqb (id_time after) it) 1
    |+| (if ((id_offset <=? t) && (t <? id_offset + 4294967296))%Z then bit (Z.eqb it t) 2 else 0)
  | CIdStress n dups disorder => bit ((dups =? 0) && (disorder =? 0)) 2
  | CIdOrder a b =>
    (* oracle: same prefix, later (time, seq) sorts strictly before; b was created after a *)
    match id_time a, id_time b with
    | Ok ta, Ok tb => if (ta <=? tb)%Z then bit (lex_ltb b a) 2 else 0
    | _, _ => 1
    end
  | CSplit f max h t =>
    let (mh, mt) := split f max in
    bit (frame_eqb mh h && frame_eqb mt t) 1
    |+| bit (frame_eqb (h ++ t) f) 2
    |+| bit (match h with [] => true | _ => fold_left (fun a m => a + msize m) h 0 <? max end) 2
    |+| bit (match f, h with m :: _, [] => max <=? msize m | _, _ => true end) 2
  | CQueue ops sent =>
    let s := fold_left q_apply ops pq0 in
    bit (list_eqb frame_eqb (q_sent s) sent) 1
    (* oracle: everything handed to the active peer reaches the transport once, in order *)
    |+| bit (frame_eqb (concat sent) (sent_of ops)) 2
  | CQStress pubs per seq => bit (stress_ok pubs per seq) 2
  end.
