(* Shared conventions: byte strings as [list N], results with explicit error / panic values,
   helpers used by the correspondence cases.  No proofs here. *)
From Coq Require Export List NArith ZArith Bool.
Export ListNotations.
Open Scope N_scope.

Definition bytes := list N.

(* outcome of a Go function: a value, a returned error (small enum), or a run-time panic *)
Inductive res (E A : Type) : Type :=
| Ok (a : A)
| Err (e : E)
| Panic.
Arguments Ok {E A} a.
Arguments Err {E A} e.
Arguments Panic {E A}.

Definition bindr {E A B} (r : res E A) (f : A -> res E B) : res E B :=
  match r with Ok a => f a | Err e => Err e | Panic => Panic end.
Notation "'do' x <- r ; k" := (bindr r (fun x => k)) (at level 200, x pattern, r at level 100, k at level 200).

Definition len {A} (l : list A) : N := N.of_nat (length l).
Definition take {A} (n : N) (l : list A) : list A := firstn (N.to_nat n) l.
Definition drop {A} (n : N) (l : list A) : list A := skipn (N.to_nat n) l.
Definition rep (n : N) (b : N) : bytes := repeat b (N.to_nat n).

Definition byte_ok (b : N) : bool := b <? 256.
Definition bytes_ok (l : bytes) : bool := forallb byte_ok l.

Definition b2n (b : bool) : N := if b then 1 else 0.
Definition is_nil {A} (l : list A) : bool := match l with [] => true | _ => false end.

Fixpoint list_eqb {A} (eq : A -> A -> bool) (a b : list A) : bool :=
  match a, b with
  | [], [] => true
  | x :: a', y :: b' => eq x y && list_eqb eq a' b'
  | _, _ => false
  end.
Definition bytes_eqb : bytes -> bytes -> bool := list_eqb N.eqb.

Definition opt_eqb {A} (eq : A -> A -> bool) (a b : option A) : bool :=
  match a, b with
  | None, None => true
  | Some x, Some y => eq x y
  | _, _ => false
  end.

(* Correspondence plumbing: a shard is a list of cases; [failing] returns (index, code) of the
   cases whose check code is non-zero.  Code bits are property specific; bit 0 is always
   "model and implementation differ", bit 1 "the property oracle fails on the implementation's
   observed behaviour". *)
Fixpoint failing_from {C} (chk : C -> N) (i : N) (cs : list C) : list (N * N) :=
  match cs with
  | [] => []
  | c :: r => let k := chk c in
              if k =? 0 then failing_from chk (i + 1) r else (i, k) :: failing_from chk (i + 1) r
  end.
Definition failing {C} (chk : C -> N) (cs : list C) : list (N * N) := failing_from chk 0 cs.

Definition bit (b : bool) (k : N) : N := if b then 0 else k.   (* k when the check b fails *)

(* check codes are bit sets: combine with lor, never with + *)
Infix "|+|" := N.lor (at level 50, left associativity) : N_scope.
