(* C06 - History queries return exactly the stored, live, matching messages.
   Model: Model/Store.v (storage/ssd.go lookup and Query, storage.go window, ID.HasPrefix / Match,
   Frame.Limit), badger as an ordered map with expiry; tied to the real in-memory and on-disk
   providers by the c06 harness, which also compares every answer with the exhaustive filter
   (Check/C06.v spec_query) on every run.
   Proved here (for EVERY store content, query, limit, continuation id): soundness of the answer;
   and, for queries without a continuation id whose contract and first channel level are literal
   (the seek key needs them), EXACTNESS: the seek-and-stop iteration returns precisely the live
   entries that pass ID.Match, in key order, cut only by the limit and the reply-size cap (a message
   that alone exceeds the cap is in no answer and, after the repair of F26, hides nothing) - nothing
   that matches is skipped; and the same for CONTINUATION pages from any id the query returned (at
   that time or earlier - the id's own message may have expired since, the case in which the code
   before the repair of F25 skipped a message): the page is precisely the live matching entries after
   the id; every message of a continuation page lies strictly after the continuation id, so no
   message appears on two pages. *)
From Emitter Require Import Lib.Base Model.MsgCodec Model.Store Proofs.IdProofs Proofs.LexOrder Proofs.StoreProofs Proofs.StoreComplete Proofs.StoreContinue.

(* every message of an answer is a live (not expired) entry of the store whose id passes
   ID.Match for the queried ssid and window - hence never a message of another contract, never an
   expired one - and the answer respects the limit and the reply-size cap *)
Theorem C06_lookup_sound : forall s now ssid from until start limit,
  let out := lookup s now ssid from until start limit in
  (forall m, In m out -> exists e, In e s /\ m = e_msg e /\ visible now e = true
                                   /\ id_match (m_id m) ssid from until = true
                                   /\ id_has_prefix (m_id m) ssid from = true)
  /\ len out <= limit /\ total_size out <= maxMessageSize.
Proof. exact lookup_sound. Qed.
Print Assumptions C06_lookup_sound.

(* ID.Match means: the id carries at least as many words as the query, every query word equals
   the id's word or is a wildcard, and the id's time lies in the window; in particular the
   contract (word 0) is the queried one unless the queried contract id is itself one of the two
   wildcard constants *)
Theorem C06_isolation : forall id c f from until,
  c <> wildcardW -> c <> multiWildcardW ->
  id_match id (c :: f) from until = true ->
  exists w, id_ssid id = Ok (c :: w) /\ words_match f w = true
            /\ exists t, id_time id = Ok t /\ (from <= t <= until)%Z.
Proof.
  intros id c f from until H1 H2 M. unfold id_match in M.
  destruct (id_ssid id) as [w| |]; try discriminate. destruct (id_time id) as [t| |]; try discriminate.
  apply andb_prop in M. destruct M as [M Mu]. apply andb_prop in M. destruct M as [M Mf].
  apply andb_prop in M. destruct M as [_ Mw].
  destruct w as [|c' w]; [discriminate|]. cbn [words_match] in Mw. apply andb_prop in Mw. destruct Mw as [Mc Mw].
  assert (c = c').
  { apply orb_prop in Mc. destruct Mc as [Mc|Mc]; [apply orb_prop in Mc; destruct Mc as [Mc|Mc]|];
      apply N.eqb_eq in Mc; congruence. }
  subst c'. exists w. split; [reflexivity|]. split; [exact Mw|]. exists t. split; [reflexivity|].
  apply Z.leb_le in Mf. apply Z.leb_le in Mu. split; assumption.
Qed.
Print Assumptions C06_isolation.

(* the final answer: ordered by non-decreasing time, drawn from the lookup, and the whole lookup
   when it already respects the limit (it always does, by C06_lookup_sound) *)
Theorem C06_answer_order : forall l n,
  sorted_time (frame_limit l n) /\ (forall m, In m (frame_limit l n) -> In m l)
  /\ (len l <= n -> len (frame_limit l n) = len l).
Proof. exact frame_limit_spec. Qed.
Print Assumptions C06_answer_order.

(* the converse: nothing is skipped.  [cap] walks the filtered list and stops at the limit or when
   the reply would exceed the size cap, exactly like the scan does on the entries it accepts. *)
Theorem C06_lookup_exact : forall s now q0 q1 qr from until limit,
  esorted s -> Forall (fun e => wf_id (key e)) s ->
  word_ok q0 -> word_ok q1 -> literal q0 -> literal q1 -> time_ok until ->
  lookup s now (q0 :: q1 :: qr) from until [] limit
  = cap (map e_msg (filter (fun e => id_match (key e) (q0 :: q1 :: qr) from until) (filter (visible now) s))) limit [] 0.
Proof. exact lookup_exact. Qed.
Print Assumptions C06_lookup_exact.

(* its premise about the store is an invariant of storing: keys stay sorted (and ids come from
   NewID - C19) *)
Theorem C06_store_stays_sorted : forall retain s m, esorted s -> esorted (store_msg retain s m).
Proof.
  intros retain s m S. unfold store_msg. destruct (id_time (m_id m)); [apply store_put_sorted; exact S | exact S | exact S].
Qed.
Print Assumptions C06_store_stays_sorted.

(* continuation pages: exact for every id the query returned, now or earlier (the id's own message may
   have expired since) *)
Theorem C06_continuation_exact : forall s now q0 q1 qr from until start limit,
  esorted s -> Forall (fun e => wf_id (key e)) s ->
  word_ok q0 -> word_ok q1 -> literal q0 -> literal q1 -> time_ok until ->
  wf_id start -> id_match start (q0 :: q1 :: qr) from until = true ->
  lookup s now (q0 :: q1 :: qr) from until start limit
  = cap (map e_msg (filter (fun e => id_match (key e) (q0 :: q1 :: qr) from until)
                           (filter (fun e => lex_ltb start (key e)) (filter (visible now) s)))) limit [] 0.
Proof. exact continuation_exact. Qed.
Print Assumptions C06_continuation_exact.

(* never the same message on two continuation pages: everything a continued lookup returns lies
   strictly after the continuation id in key order (for every store, query and id) *)
Theorem C06_pages_disjoint : forall s now ssid from until start limit m,
  esorted s -> start <> [] ->
  In m (lookup s now ssid from until start limit) -> lex_ltb start (m_id m) = true.
Proof. exact continuation_pages_disjoint. Qed.
Print Assumptions C06_pages_disjoint.

From Emitter Require Import Model.Murmur Model.Channel Model.Cipher Model.Key Model.Broker Proofs.BrokerHistory.

(* at the request level (service/history): an emitter/history/ request is answered with exactly the
   store's answer (C06_lookup_* above) for the contract of the key inside the channel text, the
   channel's query, its from/until window and its 'last' option (1 when absent), without a
   continuation id; 400 for an unparsable channel, 401 without the load permission.  The broker
   harness sends such requests between publishes with ttl / retain and compares the answers. *)
Theorem C06_history_request_is_the_query : forall (I : Type) (X : ixops I) e (b : @broker I) i c ch mid channel,
  c_query ch = [h_history] ->
  let hc := parse_channel channel in
  on_emitter X e b i c ch mid (EHistory channel) =
  if c_type hc =? ChannelInvalid then emit b i (PHistory mid 400 [])
  else match auth e hc AllowLoad with
       | None => emit b i (PHistory mid 401 [])
       | Some k =>
         let limit := match get_option s_last (c_opts hc) with Some v => Z.to_N v | None => 1 end in
         emit b i (PHistory mid 200
                     (map (fun m => (m_chan m, m_payload m))
                          (query (b_store b) (e_now e) (key_contract k :: c_query hc)
                                 (fst (chan_window hc)) (snd (chan_window hc)) [] limit)))
       end.
Proof. intros I X. exact (history_request_is_the_query X). Qed.
Print Assumptions C06_history_request_is_the_query.
