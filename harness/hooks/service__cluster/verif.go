//go:build verif

package cluster

import (
	"sync/atomic"

	"github.com/emitter-io/emitter/internal/event"
	"github.com/emitter-io/emitter/internal/message"
	"github.com/weaveworks/mesh"
)

// VerifNewPeer builds a Peer over the given sender without the 5 ms flush timer.
func VerifNewPeer(sender mesh.Gossip, name mesh.PeerName) *Peer {
	return &Peer{
		sender: sender,
		name:   name,
		frame:  message.NewFrame(defaultFrameSize),
		subs:   message.NewCounters(),
	}
}

// VerifFlush runs one round of the periodic queue flush.
func (p *Peer) VerifFlush() { p.processSendQueue() }

// VerifSetActivity sets the last-activity time of the peer.
func (p *Peer) VerifSetActivity(t int64) { atomic.StoreInt64(&p.activity, t) }

// VerifMaxByteFrameSize exposes the frame bound.
const VerifMaxByteFrameSize = maxByteFrameSize

// VerifState exposes the replicated state of the swarm.
func (s *Swarm) VerifState() *event.State { return s.state }
