(* C12 - A key cannot be altered into a more powerful one.
   The property is FALSE of the key format for licence versions 2 and 3 (stream cipher, no
   authentication tag): see C12_stream_malleable / C12_shuffle_malleable below, the concrete
   witnesses in Findings/C12.v and the known findings F17b, F17c, which the c12 harness replays on
   the real Service.Authorize every run.  What does hold, for all three versions, is stated here. *)
From Emitter Require Import Lib.Base Model.MsgCodec Model.Channel Model.Cipher Model.Key
     Proofs.CipherProofs Proofs.KeyProofs Proofs.MalleabilityProofs.

(* whatever string is presented, if it is accepted then the key it decrypts to carries the
   contract id, signature and master id of the contract on file: tampering never crosses contracts
   and never survives a change of the ten identity bytes *)
Theorem C12_identity_pinned : forall h banned decrypt contracts now ch perm k,
  authorize h banned decrypt contracts now ch perm = Some k ->
  exists c, contracts (key_contract k) = Some c
            /\ ct_id c = key_contract k /\ ct_signature c = key_signature k /\ ct_master c = key_master k
            /\ ct_allowed c = true.
Proof. exact no_cross_contract. Qed.
Print Assumptions C12_identity_pinned.

(* v2: XOR-ing a mask into the decoded key string XORs the same mask into the plaintext key -
   for every keystream and every mask: permissions, target and expiry can be rewritten *)
Theorem C12_stream_malleable : forall ks c m,
  length c = length m -> (length c <= length ks)%nat ->
  crypt (CSalsa ks) false (xor_bytes c m) = xor_bytes (crypt (CSalsa ks) false c) m.
Proof. exact stream_malleable. Qed.
Print Assumptions C12_stream_malleable.

(* v3: the same, for masks that leave the two clear-text salt bytes alone *)
Theorem C12_shuffle_malleable : forall ks s0 s1 r m,
  length r = length m -> (length r <= length (ks s0 s1))%nat ->
  crypt (CShuffle ks) false (s0 :: s1 :: xor_bytes r m)
  = match crypt (CShuffle ks) false (s0 :: s1 :: r) with
    | a :: b :: p => a :: b :: xor_bytes p m
    | x => x
    end.
Proof. exact shuffle_malleable. Qed.
Print Assumptions C12_shuffle_malleable.

(* v1: XTEA in ECB mode - altering the third ciphertext block (target hash and expiry) leaves the
   first two decrypted blocks (salt, master, contract, signature, bit path, permissions) intact.
   Escalation then still needs the scrambled 32-bit target hash to equal the hash of a useful
   channel, which is outside what a proof about the format can say; no such case is known. *)
Theorem C12_v1_block_independent : forall key c12 c3 c3',
  length c12 = 16%nat ->
  firstn 16 (blocks (dec_block key) (c12 ++ c3)) = firstn 16 (blocks (dec_block key) (c12 ++ c3')).
Proof. exact xtea_block_independent. Qed.
Print Assumptions C12_v1_block_independent.
