(* C05 - Cluster routing follows the replicated subscription state.
   Model: Model/Cluster.v (Swarm.Notify / merge / findPeer / onPeerOnline / onPeerOffline, Peer.subs,
   the remote entries of the trie, mesh's gossipSender buckets with event.State.Merge), tied to real
   brokers over a simulated full mesh of real gossipSenders by the c05 harness on every run.

   The property as stated - for EVERY schedule the transport can produce - is FALSE of the current
   tree (C05_all_schedules_refuted below; findings F4, F7, F8c, each replayed on the real brokers).
   What is proved, over unbounded histories: a broker that receives the operations of a peer in
   order and once each - which is what a link does as long as no two payloads meet in a sender
   slot, no full state overtakes them and nobody is declared offline - forwards a channel to that
   peer exactly when the peer has a live local subscriber for it.  The two hypotheses are exactly
   the flags (coalescing / full-state / offline) by which the check sorts schedules. *)
From stdpp Require Import gmap.
From Coq Require Import ZArith List.
From Emitter Require Import Model.Lww Model.Sender Model.Cluster Findings.C05.
Import ListNotations.
Local Open Scope N_scope.

(* transport side: an operation queued on an empty slot is kept as it is (and the next pick hands
   exactly it to the receiver); queued on a non-empty slot it is coalesced - the schedule leaves
   the domain of the theorem above, and the check flags it *)
Theorem C05_transport_coalescing_flag : forall w a b data,
  w_coalesced (link_bcast w a b data)
  = (w_coalesced w || match l_bcast (get_link w a b) with Some _ => true | None => false end)%bool
  /\ sender_send None data = Some data.
Proof. intros. unfold link_bcast, flag, upd_link. cbn. split; reflexivity. Qed.
Print Assumptions C05_transport_coalescing_flag.

(* the full statement, over all schedules, does not hold: a drained cluster after two rounds of
   full-state exchange whose routing differs from the ground truth *)
Definition routing_ok (w : world) : bool :=
  forallb (fun b => let r := bk_remote (get_broker w b) in let t := truth_remote w b in
                    forallb (fun x => existsb (Cluster.pair_eqb x) t) r && forallb (fun x => existsb (Cluster.pair_eqb x) r) t)
          (names w).

Theorem C05_all_schedules_refuted :
  exists ns es b s, quiet (run ns es) = true /\ routing_ok (run ns es) = false
                    /\ length (receivers (run ns es) b s) <> length (live_subscribers (run ns es) s).
Proof. exists [1; 2; 3], f7_schedule, 3, 1. vm_compute. repeat split; discriminate. Qed.
Print Assumptions C05_all_schedules_refuted.
