(* Correspondence cases of C04 / C13 / C14 (harness "crdt"). *)
From stdpp Require Import gmap.
From Coq Require Import ZArith.
From Emitter Require Import Model.Lww Model.Sender Model.BanStore.
From Emitter Require Import Lib.Base.
Local Open Scope N_scope.

Definition dump := list (N * entry).

Inductive op :=
| OpAdd (r k : N) (v : list N) (now now' : Z) (d : dump) (h : list bool)
| OpDel (r k : N) (now now' : Z) (d : dump) (h : list bool)
| OpSnap (r : N)
| OpSingle (k : N) (isadd : bool) (v : list N) (t : Z)
| OpMerge (dst p : N) (d : dump) (h : list bool) (delta : option dump)
(* the delta object returned by an earlier merge is encoded now (it was queued since): what is
   sent must still be exactly the delta computed at merge time *)
| OpDeltaCheck (p : N) (d : dump).

Inductive bop :=
| BBan (k : N) (t : Z) (was : bool)
| BUnban (k : N) (t : Z) (was : bool)
| BUse (k : N) (res : bool)
| BRestart
| BExpiry (k : N) (expires : bool)     (* does the persisted record of the key carry an expiry time *)
| BUseB (k : N) (res : bool)
| BMergeAB (res : list bool).

(* request level: ban / unban of key k acknowledged with a status, a request that must be refused, a use
   of key k (publish / subscribe / unsubscribe) answered with a status, a restart of the broker *)
Inductive rop :=
| RBan (k : N) (banned : bool) (t : Z) (status : N)
| RRefused (status : N)
| RUse (k : N) (status : N)
| RRestart.

(* the property: a valid request is acknowledged (200) and from then on the key is refused (401) exactly
   while it is banned - across restarts; an invalid request is refused and changes nothing *)
Fixpoint breq_ok (l : list rop) (banned : list N) : bool :=
  match l with
  | [] => true
  | RBan k b _ st :: r => (st =? 200) && breq_ok r (if b then k :: banned else filter (fun x => negb (x =? k)) banned)
  | RRefused st :: r => (st =? 401) && breq_ok r banned
  | RUse k st :: r => (if existsb (N.eqb k) banned then st =? 401 else st =? 0) && breq_ok r banned
  | RRestart :: r => breq_ok r banned
  end.

(* the same history through the model of the durable set behind keyban and Authorize (Model/BanStore.v):
   do the uses get the answers the model gives *)
Fixpoint breq_model (l : list rop) (s : bstore) : bool :=
  match l with
  | [] => true
  | RBan k b t _ :: r => breq_model r (fst (ban_step s (if b then KBan k t else KUnban k t)))
  | RRefused _ :: r => breq_model r s
  | RUse k st :: r => let (s', res) := ban_step s (KUse k) in
                      (match res with Some b => Bool.eqb b (st =? 401) | None => false end) && breq_model r s'
  | RRestart :: r => breq_model r (fst (ban_step s KRestart))
  end.

Inductive case :=
| CHist (durable : bool) (n : N) (ops : list op) (finals : list (dump * list bool))
| CBan (ops : list bop)
(* lookups racing ban / unban toggles: number of answers, read right after an acknowledged toggle,
   that did not show it *)
| CBanRace (toggles wrong : N)
(* emitter/keyban/ requests and uses of the keys against a real broker (status 0 = plain success) *)
| CBanReq (rops : list rop)
(* payloads (durable?, content) queued with Send on one link of mesh's gossipSender, then what
   deliver() handed to the connection *)
| CSender (ps : list (bool * dump)) (live : dump) (sent : list dump) (panicked : bool).

Definition universe : list N := [0; 1; 2; 100; 101; 102; 200; 201].

Definition entry_eqb (a b : entry) : bool :=
  (e_add a =? e_add b)%Z && (e_del a =? e_del b)%Z && bytes_eqb (e_val a) (e_val b).

Definition dump_matches (m : replica) (d : dump) : bool :=
  (N.of_nat (size m) =? N.of_nat (length d))
  && forallb (fun ke => match m !! (fst ke) with Some e => entry_eqb e (snd ke) | None => false end) d.

Definition has_list (m : replica) : list bool := map (has m) universe.
Definition bools_eqb := list_eqb Bool.eqb.

Definition nth_rep (l : list replica) (i : N) : replica := nth (N.to_nat i) l ∅.
Fixpoint set_nth {A} (l : list A) (i : nat) (x : A) : list A :=
  match l, i with
  | [], _ => []
  | _ :: r, O => x :: r
  | y :: r, S j => y :: set_nth r j x
  end.

Record st := St { reps : list replica; pays : list (option replica); ok : bool; dok : bool }.

(* independent statement of C13 for one merge: which keys and which time fields are new *)
Definition delta_spec_ok (before after : replica) (payload : replica) (delta : option dump) : bool :=
  let changed k := negb (Z.eqb (e_add (fetch before k)) (e_add (fetch after k)))
                   || negb (Z.eqb (e_del (fetch before k)) (e_del (fetch after k))) in
  let d := match delta with Some d => d | None => [] end in
  (* nil exactly when nothing changed *)
  Bool.eqb (match delta with None => true | Some _ => false end) (forallb (fun k => negb (changed k)) universe)
  (* exactly the changed keys *)
  && forallb (fun k => Bool.eqb (changed k) (existsb (fun ke => fst ke =? k) d)) universe
  (* only the time fields that changed, carrying the new value *)
  && forallb (fun ke =>
       let k := fst ke in let e := snd ke in
       (if Z.eqb (e_add (fetch before k)) (e_add (fetch after k)) then Z.eqb (e_add e) 0
        else Z.eqb (e_add e) (e_add (fetch after k)))
       && (if Z.eqb (e_del (fetch before k)) (e_del (fetch after k)) then Z.eqb (e_del e) 0
           else Z.eqb (e_del e) (e_del (fetch after k)))) d.

Definition step (s : st) (o : op) : st :=
  match o with
  | OpAdd r k v now now' d h =>
    let m := lww_add (nth_rep (reps s) r) k v now now' in
    St (set_nth (reps s) (N.to_nat r) m) (pays s) (ok s && dump_matches m d && bools_eqb (has_list m) h) (dok s)
  | OpDel r k now now' d h =>
    let m := lww_del (nth_rep (reps s) r) k now now' in
    St (set_nth (reps s) (N.to_nat r) m) (pays s) (ok s && dump_matches m d && bools_eqb (has_list m) h) (dok s)
  | OpSnap r => St (reps s) (pays s ++ [Some (nth_rep (reps s) r)]) (ok s) (dok s)
  | OpSingle k isadd v t =>
    let p := if isadd then lww_add ∅ k v t t else lww_del ∅ k t t in
    St (reps s) (pays s ++ [Some p]) (ok s) (dok s)
  | OpDeltaCheck p d =>
    let same := match nth (N.to_nat p) (pays s) None with Some pl => dump_matches pl d | None => false end in
    St (reps s) (pays s) (ok s && same) (dok s && same)
  | OpMerge dst p d h delta =>
    match nth (N.to_nat p) (pays s) None with
    | None => St (reps s) (pays s) false (dok s)
    | Some pl =>
      let before := nth_rep (reps s) dst in
      let '(m, dl) := state_merge before pl in
      let delta_ok := match dl, delta with
                      | None, None => true
                      | Some x, Some y => dump_matches x y
                      | _, _ => false
                      end in
      (* the oracle looks at the implementation's own post-state *)
      let after_impl : replica := list_to_map d in
      St (set_nth (reps s) (N.to_nat dst) m) (pays s ++ [dl])
         (ok s && dump_matches m d && bools_eqb (has_list m) h && delta_ok)
         (dok s && delta_spec_ok before after_impl pl delta)
    end
  end.

Definition times_of (d : dump) : list (N * Z * Z) := map (fun ke => (fst ke, e_add (snd ke), e_del (snd ke))) d.
Definition tlist_eqb := list_eqb (fun a b : N * Z * Z =>
  (fst (fst a) =? fst (fst b)) && Z.eqb (snd (fst a)) (snd (fst b)) && Z.eqb (snd a) (snd b)).

(* C04 oracle on the implementation's final states: same entries with the same times on every
   replica, same activity answers, and activity = added and latest add not older than latest
   remove *)
Definition converged (finals : list (dump * list bool)) : bool :=
  match finals with
  | [] => true
  | f0 :: r =>
    forallb (fun f => tlist_eqb (times_of (fst f)) (times_of (fst f0)) && bools_eqb (snd f) (snd f0)) r
    && forallb (fun f =>
         let m : replica := list_to_map (fst f) in
         bools_eqb (snd f) (map (fun k => let e := fetch m k in negb (Z.eqb (e_add e) 0) && Z.leb (e_del e) (e_add e)) universe))
       finals
  end.

(* ---- C14 ---- *)
Record bst := BSt { sa : bstore; sb : bstore; bok : bool; banned : list N; book : bool }.

Definition bstep (s : bst) (o : bop) : bst :=
  match o with
  | BBan k t was =>
    let (b, s1) := bs_has (sa s) k in
    BSt (if b then s1 else bs_add s1 k t) (sb s) (bok s && Bool.eqb b was)
        (if existsb (N.eqb k) (banned s) then banned s else k :: banned s) (book s)
  | BUnban k t was =>
    let (b, s1) := bs_has (sa s) k in
    BSt (if b then bs_del s1 k t else s1) (sb s) (bok s && Bool.eqb b was)
        (filter (fun x => negb (x =? k)) (banned s)) (book s)
  | BUse k res =>
    let (b, s1) := bs_has (sa s) k in
    BSt s1 (sb s) (bok s && Bool.eqb b res) (banned s)
        (book s && Bool.eqb res (existsb (N.eqb k) (banned s)))      (* oracle: refused iff banned *)
  | BRestart => BSt (bs_restart (sa s)) (sb s) (bok s) (banned s) (book s)
  | BExpiry k ex =>
    (* Durable.store gives tombstones a 6 h lifetime; the record of a key that is banned must not expire *)
    let e := fetch (bs_db (sa s)) k in
    BSt (sa s) (sb s) (bok s && Bool.eqb ex (match bs_db (sa s) !! k with Some _ => is_removed e | None => false end))
        (banned s) (book s && (if existsb (N.eqb k) (banned s) then negb ex else true))
  | BUseB k res =>
    let (b, s1) := bs_has (sb s) k in
    BSt (sa s) s1 (bok s && Bool.eqb b res) (banned s) (book s)
  | BMergeAB res =>
    let s1 := bs_merge (sb s) (bs_db (sa s)) in
    let '(b0, s2) := bs_has s1 100 in
    let '(b1, s3) := bs_has s2 101 in
    BSt (sa s) s3 (bok s && bools_eqb [b0; b1] res) (banned s)
        (book s && bools_eqb res [existsb (N.eqb 100) (banned s); existsb (N.eqb 101) (banned s)])
  end.

(* mesh sender with the swarm's payload adapter (Model/Sender.v slot_send) *)
Definition covers_all (ps : list (bool * dump)) (sent : list dump) : bool :=
  let joined (l : list dump) : replica := fold_left (fun a d => lww_merge a (list_to_map d)) l ∅ in
  let want := joined (map snd (filter (fun x => negb (fst x)) ps)) in
  let got := joined sent in
  forallb (fun k => Z.leb (e_add (fetch want k)) (e_add (fetch got k))
                    && Z.leb (e_del (fetch want k)) (e_del (fetch got k))) universe.

Definition check (c : case) : N :=
  match c with
  | CHist durable n ops finals =>
    let s := fold_left step ops (St (repeat ∅ (N.to_nat n)) [] true true) in
    bit (ok s) 1
    |+| bit (forallb (fun x => x) (map (fun '(m, f) => dump_matches m (fst f) && bools_eqb (has_list m) (snd f))
                                     (combine (reps s) finals))) 1
    |+| bit (converged finals) 2
    |+| bit (dok s) 4
  | CBan ops =>
    let s := fold_left bstep ops (BSt bs0 bs0 true [] true) in
    bit (bok s) 1 |+| bit (book s) 2
  | CBanRace toggles wrong => bit (wrong =? 0) 2
  | CBanReq rops => bit (breq_model rops bs0) 1 |+| bit (breq_ok rops []) 2
  | CSender ps live sent panicked =>
    let model := fold_left (fun sl x => slot_send sl (fst x) (list_to_map (snd x))) ps SNone in
    let corr := negb panicked &&
                match slot_payload (list_to_map live) model, sent with
                | None, [] => true
                | Some m, [d] => dump_matches m d
                | _, _ => false
                end in
    (* nothing queued is lost: what is sent carries at least every update of every queued delta *)
    let oracle := negb panicked && covers_all ps sent in
    bit corr 1 |+| bit oracle 4
  end.
