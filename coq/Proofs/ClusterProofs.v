(* C05, observer side: a broker that receives, in order and once each, the one-operation payloads of
   a remote peer p - interleaved with anything that does not concern p - ends up with p in its trie
   for exactly the channels on which p has a live local subscriber.  Statements are about the model
   functions of Model/Cluster.v themselves (swarm_merge, local_sub, local_unsub, peer_offline). *)
From stdpp Require Import gmap.
From Coq Require Import ZArith List Lia.
From Emitter Require Import Model.Lww Model.Sender Model.Cluster Proofs.LwwProofs.
Import ListNotations.
Local Open Scope N_scope.

(* ---- keys ---- *)
Lemma kbase_pos : 0 < kbase. Proof. reflexivity. Qed.

Lemma key_parts p c s : c < kbase -> s < kbase ->
  k_peer (mk_key p c s) = p /\ k_conn (mk_key p c s) = c /\ k_ssid (mk_key p c s) = s.
Proof.
  intros Hc Hs. unfold k_peer, k_conn, k_ssid, mk_key.
  assert (kbase <> 0) as K by (pose proof kbase_pos; lia).
  repeat split.
  - replace ((p * kbase + c) * kbase + s) with (s + (c + p * kbase) * kbase) by lia.
    rewrite <- N.div_div by assumption. rewrite N.div_add by assumption. rewrite (N.div_small s) by assumption.
    rewrite N.add_0_l, N.div_add by assumption. rewrite (N.div_small c) by assumption. lia.
  - replace ((p * kbase + c) * kbase + s) with (s + (p * kbase + c) * kbase) by lia.
    rewrite N.div_add by assumption. rewrite (N.div_small s) by assumption. rewrite N.add_0_l.
    replace (p * kbase + c) with (c + p * kbase) by lia. rewrite N.mod_add by assumption. apply N.mod_small. assumption.
  - replace ((p * kbase + c) * kbase + s) with (s + (p * kbase + c) * kbase) by lia.
    rewrite N.mod_add by assumption. apply N.mod_small. assumption.
Qed.

Lemma key_decompose k : k = mk_key (k_peer k) (k_conn k) (k_ssid k) /\ k_conn k < kbase /\ k_ssid k < kbase.
Proof.
  assert (kbase <> 0) as K by (pose proof kbase_pos; lia).
  unfold k_peer, k_conn, k_ssid, mk_key. repeat split; try (apply N.mod_lt; assumption).
  rewrite <- N.div_div by assumption.
  pose proof (N.div_mod k kbase K) as E1. pose proof (N.div_mod (k / kbase) kbase K) as E2. lia.
Qed.

Lemma mk_key_inj p c s p' c' s' : c < kbase -> s < kbase -> c' < kbase -> s' < kbase ->
  mk_key p c s = mk_key p' c' s' -> p = p' /\ c = c' /\ s = s'.
Proof.
  intros A B C D E.
  destruct (key_parts p c s A B) as (P1 & P2 & P3). destruct (key_parts p' c' s' C D) as (Q1 & Q2 & Q3).
  rewrite E in P1, P2, P3. rewrite P1 in Q1. rewrite P2 in Q2. rewrite P3 in Q3. auto.
Qed.

(* ---- sets of pairs ---- *)
Lemma pair_eqb_eq a b : pair_eqb a b = true <-> a = b.
Proof.
  unfold pair_eqb. destruct a, b; cbn. rewrite andb_true_iff, !N.eqb_eq. split; [intros [E1 E2]; subst; reflexivity | intros H; inversion H; auto].
Qed.

Lemma in_set_add x y l : In x (set_add y l) <-> In x l \/ x = y.
Proof.
  unfold set_add. destruct (existsb (pair_eqb y) l) eqn:E.
  - split; [auto|]. intros [H| ->]; [exact H|]. apply existsb_exists in E. destruct E as (z & Hz & E). apply pair_eqb_eq in E. subst. exact Hz.
  - rewrite in_app_iff. cbn. split; [intros [H|[H|[]]]; auto | intros [H|H]; auto].
Qed.

Lemma in_set_del x y l : In x (set_del y l) <-> In x l /\ x <> y.
Proof.
  unfold set_del. rewrite filter_In. split; intros [A B]; (split; [exact A|]).
  - intros ->. rewrite (proj2 (pair_eqb_eq y y) eq_refl) in B. discriminate.
  - destruct (pair_eqb y x) eqn:E; [|reflexivity]. apply pair_eqb_eq in E. subst. contradiction.
Qed.

(* ---- counters ---- *)
Lemma find_filter_other (c : list (N * N)) s s' : s <> s' ->
  find (fun e => fst e =? s') (filter (fun e => negb (fst e =? s)) c) = find (fun e => fst e =? s') c.
Proof.
  intros H. induction c as [|e c IH]; cbn; [reflexivity|].
  destruct (fst e =? s) eqn:E; cbn.
  - apply N.eqb_eq in E. destruct (fst e =? s') eqn:E'; [apply N.eqb_eq in E'; congruence | exact IH].
  - destruct (fst e =? s'); [reflexivity | exact IH].
Qed.

Lemma find_filter_self (c : list (N * N)) s :
  find (fun e => fst e =? s) (filter (fun e => negb (fst e =? s)) c) = None.
Proof.
  induction c as [|e c IH]; cbn; [reflexivity|].
  destruct (fst e =? s) eqn:E; cbn; [exact IH | rewrite E; exact IH].
Qed.

Lemma find_app_none {A} (f : A -> bool) l l' : find f l = None -> find f (l ++ l') = find f l'.
Proof. induction l as [|x l IH]; cbn; [reflexivity|]. destruct (f x); [discriminate | exact IH]. Qed.

Lemma find_app_some {A} (f : A -> bool) l l' x : find f l = Some x -> find f (l ++ l') = Some x.
Proof. induction l as [|y l IH]; cbn; [discriminate|]. destruct (f y); [auto | exact IH]. Qed.

Lemma cnt_get_set c s v s' : cnt_get (cnt_set c s v) s' = if s =? s' then v else cnt_get c s'.
Proof.
  unfold cnt_get, cnt_set. destruct (s =? s') eqn:E.
  - apply N.eqb_eq in E. subst s'. destruct (v =? 0) eqn:V.
    + rewrite find_filter_self. apply N.eqb_eq in V. auto.
    + rewrite find_app_none by apply find_filter_self. cbn. rewrite N.eqb_refl. reflexivity.
  - apply N.eqb_neq in E. destruct (v =? 0).
    + rewrite find_filter_other by exact E. reflexivity.
    + destruct (find (fun e => fst e =? s') (filter (fun e => negb (fst e =? s)) c)) as [x|] eqn:F.
      * rewrite (find_app_some _ _ _ _ F). rewrite find_filter_other in F by exact E. rewrite F. reflexivity.
      * rewrite find_app_none by exact F. cbn. destruct (s =? s') eqn:E2; [apply N.eqb_eq in E2; contradiction|].
        rewrite find_filter_other in F by exact E. rewrite F. reflexivity.
Qed.

(* ---- members ---- *)
Lemma member_get_set m p c q : member_get (member_set m p c) q = if p =? q then Some c else member_get m q.
Proof.
  unfold member_get, member_set. destruct (p =? q) eqn:E.
  - apply N.eqb_eq in E. subst q.
    assert (find (fun e : N * list (N * N) => fst e =? p) (filter (fun e => negb (fst e =? p)) m) = None) as F.
    { induction m as [|e m IH]; cbn; [reflexivity|]. destruct (fst e =? p) eqn:E; cbn; [exact IH | rewrite E; exact IH]. }
    rewrite find_app_none by exact F. cbn. rewrite N.eqb_refl. reflexivity.
  - apply N.eqb_neq in E.
    assert (forall l, find (fun e : N * list (N * N) => fst e =? q) (filter (fun e => negb (fst e =? p)) l) = find (fun e => fst e =? q) l) as F.
    { induction l as [|e l IH]; cbn; [reflexivity|]. destruct (fst e =? p) eqn:E1; cbn.
      - apply N.eqb_eq in E1. destruct (fst e =? q) eqn:E2; [apply N.eqb_eq in E2; congruence | exact IH].
      - destruct (fst e =? q); [reflexivity | exact IH]. }
    destruct (find (fun e => fst e =? q) (filter (fun e => negb (fst e =? p)) m)) as [x|] eqn:G.
    + rewrite (find_app_some _ _ _ _ G). rewrite F in G. rewrite G. reflexivity.
    + rewrite find_app_none by exact G. cbn. destruct (p =? q) eqn:E2; [apply N.eqb_eq in E2; contradiction|].
      rewrite F in G. rewrite G. reflexivity.
Qed.

Lemma member_get_del m p q : p <> q -> member_get (member_del m p) q = member_get m q.
Proof.
  intros H. unfold member_get, member_del.
  induction m as [|e m IH]; cbn; [reflexivity|]. destruct (fst e =? p) eqn:E1; cbn.
  - apply N.eqb_eq in E1. destruct (fst e =? q) eqn:E2; [apply N.eqb_eq in E2; congruence | exact IH].
  - destruct (fst e =? q); [reflexivity | exact IH].
Qed.

(* ---- one-operation payloads ---- *)
Local Open Scope Z_scope.

Lemma payload_add k (t : Z) : 0 < t -> lww_add ∅ k [] t t = {[k := Ent t 0 []]}.
Proof.
  intros H. unfold lww_add, fetch. rewrite lookup_empty. cbn.
  destruct (0 <? t) eqn:E; [|apply Z.ltb_ge in E; lia]. apply insert_empty.
Qed.

Lemma payload_del k (t : Z) : 0 < t -> lww_del ∅ k t t = {[k := Ent 0 t []]}.
Proof.
  intros H. unfold lww_del, fetch. rewrite lookup_empty. cbn.
  destruct (0 <? t) eqn:E; [|apply Z.ltb_ge in E; lia]. apply insert_empty.
Qed.

Lemma singleton_ne_empty (k : N) (e : entry) : ({[k := e]} : replica) <> ∅.
Proof. intros H. apply (f_equal (fun m : replica => m !! k)) in H. rewrite lookup_singleton, lookup_empty in H. discriminate. Qed.

Lemma state_merge_single_add (st : replica) k t a d v :
  fetch st k = Ent a d v -> a < t -> 0 <= d -> 0 < t ->
  state_merge st {[k := Ent t 0 []]} = (<[k := Ent t d []]> st, Some {[k := Ent t 0 []]}).
Proof.
  intros F A D T. unfold state_merge.
  assert (merge_entry (Ent a d v) (Ent t 0 []) = (Some (Ent t d []), Some (Ent t 0 []))) as M.
  { unfold merge_entry. cbn [e_add e_del e_val].
    destruct (a <? t) eqn:E1; [|apply Z.ltb_ge in E1; lia].
    destruct (d <? 0) eqn:E2; [apply Z.ltb_lt in E2; lia|].
    unfold is_zero. cbn [e_add e_del]. destruct (t =? 0) eqn:E3; [apply Z.eqb_eq in E3; lia|]. reflexivity. }
  assert (lww_delta st {[k := Ent t 0 []]} = {[k := Ent t 0 []]}) as HD.
  { apply map_eq. intros k'. rewrite lookup_lww_delta. destruct (decide (k = k')) as [->|N].
    - rewrite !lookup_singleton. unfold merge_delta. unfold fetch in F. rewrite F, M. reflexivity.
    - rewrite !lookup_singleton_ne by exact N. reflexivity. }
  assert (lww_merge st {[k := Ent t 0 []]} = <[k := Ent t d []]> st) as HM.
  { apply map_eq. intros k'. rewrite lookup_lww_merge. destruct (decide (k = k')) as [->|N].
    - rewrite lookup_singleton, lookup_insert. unfold merge_local. unfold fetch in F. rewrite F, M. reflexivity.
    - rewrite lookup_singleton_ne, lookup_insert_ne by exact N. reflexivity. }
  rewrite HD, HM. destruct (decide (({[k := Ent t 0 []]} : replica) = ∅)) as [E|_]; [exfalso; exact (singleton_ne_empty _ _ E) | reflexivity].
Qed.

Lemma state_merge_single_del (st : replica) k t a d v :
  fetch st k = Ent a d v -> d < t -> 0 <= a -> 0 < t ->
  state_merge st {[k := Ent 0 t []]} = (<[k := Ent a t []]> st, Some {[k := Ent 0 t []]}).
Proof.
  intros F D A T. unfold state_merge.
  assert (merge_entry (Ent a d v) (Ent 0 t []) = (Some (Ent a t []), Some (Ent 0 t []))) as M.
  { unfold merge_entry. cbn [e_add e_del e_val].
    destruct (a <? 0) eqn:E1; [apply Z.ltb_lt in E1; lia|].
    destruct (d <? t) eqn:E2; [|apply Z.ltb_ge in E2; lia].
    unfold is_zero. cbn [e_add e_del]. destruct (t =? 0) eqn:E3; [apply Z.eqb_eq in E3; lia|]. cbn. reflexivity. }
  assert (lww_delta st {[k := Ent 0 t []]} = {[k := Ent 0 t []]}) as HD.
  { apply map_eq. intros k'. rewrite lookup_lww_delta. destruct (decide (k = k')) as [->|N].
    - rewrite !lookup_singleton. unfold merge_delta. unfold fetch in F. rewrite F, M. reflexivity.
    - rewrite !lookup_singleton_ne by exact N. reflexivity. }
  assert (lww_merge st {[k := Ent 0 t []]} = <[k := Ent a t []]> st) as HM.
  { apply map_eq. intros k'. rewrite lookup_lww_merge. destruct (decide (k = k')) as [->|N].
    - rewrite lookup_singleton, lookup_insert. unfold merge_local. unfold fetch in F. rewrite F, M. reflexivity.
    - rewrite lookup_singleton_ne, lookup_insert_ne by exact N. reflexivity. }
  rewrite HD, HM. destruct (decide (({[k := Ent 0 t []]} : replica) = ∅)) as [E|_]; [exfalso; exact (singleton_ne_empty _ _ E) | reflexivity].
Qed.

Lemma fetch_insert (st : replica) k e k' : fetch (<[k := e]> st) k' = if decide (k = k') then e else fetch st k'.
Proof.
  unfold fetch. destruct (decide (k = k')) as [->|N]; [rewrite lookup_insert; reflexivity | rewrite lookup_insert_ne by exact N; reflexivity].
Qed.

Lemma swarm_merge_single (b : broker) k v st' :
  state_merge (bk_state b) {[k := v]} = (st', Some {[k := v]}) ->
  fst (swarm_merge b {[k := v]}) = merge_entry_effect (BK (bk_name b) st' (bk_members b) (bk_remote b) (bk_local b)) k v.
Proof.
  intros H. unfold swarm_merge. rewrite H. rewrite map_to_list_singleton. reflexivity.
Qed.

(* ---- the observer of one remote peer ---- *)
Section observer.
Variable p : N.

Inductive kind := KSub | KUnsub.
Record sop := SOp { o_conn : N; o_ssid : N; o_kind : kind; o_t : Z }.
Definition op_key (o : sop) : N := mk_key p (o_conn o) (o_ssid o).
Definition payload_of (o : sop) : replica :=
  match o_kind o with
  | KSub => lww_add ∅ (op_key o) [] (o_t o) (o_t o)
  | KUnsub => lww_del ∅ (op_key o) (o_t o) (o_t o)
  end.

(* the source side: its live local subscriptions (conn, ssid) and the times it has written *)
Record src := Src { s_live : list (N * N); s_add : N -> N -> Z; s_del : N -> N -> Z; s_max : Z; s_any : bool }.
Definition src0 : src := Src [] (fun _ _ => 0) (fun _ _ => 0) 0 false.
Definition upd (f : N -> N -> Z) (c s : N) (t : Z) : N -> N -> Z :=
  fun c' s' => if (c' =? c)%N && (s' =? s)%N then t else f c' s'.
Definition src_step (x : src) (o : sop) : src :=
  match o_kind o with
  | KSub => Src (set_add (o_conn o, o_ssid o) (s_live x)) (upd (s_add x) (o_conn o) (o_ssid o) (o_t o)) (s_del x) (o_t o) true
  | KUnsub => Src (set_del (o_conn o, o_ssid o) (s_live x)) (s_add x) (upd (s_del x) (o_conn o) (o_ssid o) (o_t o)) (o_t o) true
  end.
(* what the real broker guarantees about its own operations: a connection subscribes to a channel
   only when it does not hold it, unsubscribes only what it holds; the clock moves forward *)
Definition wf_op (x : src) (o : sop) : Prop :=
  (o_conn o < kbase)%N /\ (o_ssid o < kbase)%N /\ s_max x < o_t o
  /\ match o_kind o with
     | KSub => ~ In (o_conn o, o_ssid o) (s_live x)
     | KUnsub => In (o_conn o, o_ssid o) (s_live x)
     end.

Definition count (s : N) (l : list (N * N)) : N := N.of_nat (length (filter (fun e => (snd e =? s)%N) l)).

Record J (b : broker) (x : src) : Prop := {
  j_name : bk_name b <> p;
  j_state : forall c s, (c < kbase)%N -> (s < kbase)%N ->
            fetch (bk_state b) (mk_key p c s) = Ent (s_add x c s) (s_del x c s) [];
  j_times : forall c s, 0 <= s_add x c s <= s_max x /\ 0 <= s_del x c s <= s_max x;
  j_nodup : NoDup (s_live x);
  j_fresh : s_any x = false -> member_get (bk_members b) p = None /\ s_live x = [] /\ forall c s, s_add x c s = 0;
  j_member : s_any x = true -> exists cnt, member_get (bk_members b) p = Some cnt /\ forall s, cnt_get cnt s = count s (s_live x);
  j_remote : forall s, In (s, p) (bk_remote b) <-> (0 < count s (s_live x))%N
}.

Lemma NoDup_snoc {A} (l : list A) x : List.NoDup l -> ~ In x l -> List.NoDup (l ++ [x]).
Proof.
  induction l as [|y l IH]; intros ND H; cbn; [repeat constructor; intros []|].
  inversion ND; subst. constructor.
  - rewrite in_app_iff. intros [H1|[H1|[]]]; [contradiction | subst; apply H; left; reflexivity].
  - apply IH; [assumption | intros H1; apply H; right; exact H1].
Qed.

Lemma count_set_add c s l s' : ~ In (c, s) l -> count s' (set_add (c, s) l) = (count s' l + if (s =? s')%N then 1 else 0)%N.
Proof.
  intros H. unfold set_add. destruct (existsb (pair_eqb (c, s)) l) eqn:E.
  - apply existsb_exists in E. destruct E as (z & Hz & E). apply pair_eqb_eq in E. subst. contradiction.
  - unfold count. rewrite filter_app, app_length. cbn [filter snd]. destruct (s =? s')%N; cbn; lia.
Qed.

Lemma filter_notin (x : N * N) : forall l, ~ In x l -> filter (fun y => negb (pair_eqb x y)) l = l.
Proof.
  induction l as [|y l IHl]; intros Hn; [reflexivity|]. cbn. destruct (pair_eqb x y) eqn:E.
  - apply pair_eqb_eq in E. subst. exfalso. apply Hn. left. reflexivity.
  - cbn. f_equal. apply IHl. intros H. apply Hn. right. exact H.
Qed.

Lemma count_set_del c s l s' : NoDup l -> In (c, s) l ->
  count s' (set_del (c, s) l) = (count s' l - if (s =? s')%N then 1 else 0)%N.
Proof.
  intros ND H. unfold count, set_del. induction l as [|e l IH]; [destruct H|].
  inversion ND as [|? ? Hn ND']; subst. cbn [filter]. destruct H as [->|H].
  - rewrite (proj2 (pair_eqb_eq (c, s) (c, s)) eq_refl). cbn [negb snd].
    assert (filter (fun y => negb (pair_eqb (c, s) y)) l = l) as F by (apply filter_notin; exact Hn).
    rewrite F. destruct (s =? s')%N; cbn [length]; [rewrite Nat2N.inj_succ|]; lia.
  - destruct (pair_eqb (c, s) e) eqn:E.
    + apply pair_eqb_eq in E. subst. contradiction.
    + cbn [negb filter]. specialize (IH ND' H). destruct (snd e =? s')%N; cbn [length]; [|exact IH].
      rewrite !Nat2N.inj_succ. destruct (s =? s')%N eqn:E2; [|lia].
      assert (0 < length (filter (fun e0 => (snd e0 =? s')%N) l))%nat.
      { apply N.eqb_eq in E2. subst s'. clear -H. induction l as [|y l IHl]; [destruct H|]. cbn. destruct H as [->|H].
        - cbn. rewrite N.eqb_refl. cbn. lia.
        - destruct (snd y =? s)%N; cbn; [lia | apply IHl; exact H]. }
      lia.
Qed.

Lemma count_pos s l : (0 < count s l)%N <-> exists c, In (c, s) l.
Proof.
  unfold count. induction l as [|e l IH]; cbn; [split; [lia | intros (c & [])]|].
  destruct (snd e =? s)%N eqn:E; cbn.
  - split; [intros _ | lia]. apply N.eqb_eq in E. exists (fst e). left. destruct e; cbn in *; subst; reflexivity.
  - rewrite IH. split; intros (c & H); exists c; [right; exact H|]. destruct H as [->|H]; [cbn in E; rewrite N.eqb_refl in E; discriminate | exact H].
Qed.

Lemma fold_set_add_in (f : N -> N * N) : forall ks r x,
  In x (fold_left (fun r k => set_add (f k) r) ks r) <-> In x r \/ exists k, In k ks /\ x = f k.
Proof.
  induction ks as [|k ks IH]; intros r x; cbn [fold_left].
  - split; [auto | intros [H|(k & [] & _)]; exact H].
  - rewrite IH, in_set_add. split.
    + intros [[H|H]|(k' & H1 & H2)]; [auto | right; exists k; split; [left; reflexivity | exact H] | right; exists k'; split; [right; exact H1 | exact H2]].
    + intros [H|(k' & [->|H1] & H2)]; [auto | left; right; exact H2 | right; exists k'; auto].
Qed.

Lemma in_subs_of (st : replica) q k : In k (subs_of st q) <-> k_peer k = q /\ exists e, st !! k = Some e /\ is_added e = true.
Proof.
  unfold subs_of. rewrite in_map_iff. split.
  - intros ([k' e] & <- & H). apply filter_In in H. destruct H as [H1 H2]. cbn in *.
    apply andb_prop in H2. destruct H2 as [H2 H3]. apply N.eqb_eq in H2.
    apply elem_of_list_In, elem_of_map_to_list in H1. split; [exact H2 | exists e; auto].
  - intros (H1 & e & H2 & H3). exists (k, e). split; [reflexivity|]. apply filter_In. split.
    + apply elem_of_list_In, elem_of_map_to_list. exact H2.
    + cbn. rewrite H3. apply N.eqb_eq in H1. rewrite H1. reflexivity.
Qed.

(* merge_entry_effect on the two kinds of one-operation deltas *)
Lemma mee_add nm st mem rem loc k (t : Z) cnt :
  0 < t -> k_peer k <> nm -> member_get mem (k_peer k) = Some cnt ->
  merge_entry_effect (BK nm st mem rem loc) k (Ent t 0 []) =
  BK nm st (member_set mem (k_peer k) (cnt_set cnt (k_ssid k) (cnt_get cnt (k_ssid k) + 1)))
     (if (cnt_get cnt (k_ssid k) =? 0)%N then set_add (k_ssid k, k_peer k) rem else rem) loc.
Proof.
  intros T Hn G. unfold merge_entry_effect. cbn [bk_name].
  destruct (k_peer k =? nm)%N eqn:E; [apply N.eqb_eq in E; contradiction|].
  unfold find_peer. cbn [bk_members]. rewrite G. cbn [bk_members bk_remote bk_name bk_state bk_local]. rewrite G.
  assert (is_added (Ent t 0 []) = true) as IA by (unfold is_added; cbn; destruct (t =? 0) eqn:E2; [apply Z.eqb_eq in E2; lia|]; cbn; apply Z.leb_le; lia).
  assert (is_removed (Ent t 0 []) = false) as IR by (unfold is_removed; cbn; apply Z.ltb_ge; lia).
  rewrite IA, IR. unfold cnt_inc. reflexivity.
Qed.

Lemma mee_add_new nm st mem rem loc k (t : Z) :
  0 < t -> k_peer k <> nm -> member_get mem (k_peer k) = None ->
  merge_entry_effect (BK nm st mem rem loc) k (Ent t 0 []) =
  BK nm st (member_set (member_set mem (k_peer k) []) (k_peer k) (cnt_set [] (k_ssid k) 1))
     (set_add (k_ssid k, k_peer k) (fold_left (fun r k' => set_add (k_ssid k', k_peer k) r) (subs_of st (k_peer k)) rem)) loc.
Proof.
  intros T Hn G. unfold merge_entry_effect. cbn [bk_name].
  destruct (k_peer k =? nm)%N eqn:E; [apply N.eqb_eq in E; contradiction|].
  unfold find_peer. cbn [bk_members]. rewrite G. cbn [bk_members bk_remote bk_name bk_state bk_local].
  rewrite member_get_set, N.eqb_refl.
  assert (is_added (Ent t 0 []) = true) as IA by (unfold is_added; cbn; destruct (t =? 0) eqn:E2; [apply Z.eqb_eq in E2; lia|]; cbn; apply Z.leb_le; lia).
  assert (is_removed (Ent t 0 []) = false) as IR by (unfold is_removed; cbn; apply Z.ltb_ge; lia).
  rewrite IA, IR. unfold cnt_inc. reflexivity.
Qed.

Lemma mee_del nm st mem rem loc k (t : Z) cnt :
  0 < t -> k_peer k <> nm -> member_get mem (k_peer k) = Some cnt -> (cnt_get cnt (k_ssid k) <> 0)%N ->
  merge_entry_effect (BK nm st mem rem loc) k (Ent 0 t []) =
  BK nm st (member_set mem (k_peer k) (cnt_set cnt (k_ssid k) (cnt_get cnt (k_ssid k) - 1)))
     (if (cnt_get cnt (k_ssid k) =? 1)%N then set_del (k_ssid k, k_peer k) rem else rem) loc.
Proof.
  intros T Hn G NZ. unfold merge_entry_effect. cbn [bk_name].
  destruct (k_peer k =? nm)%N eqn:E; [apply N.eqb_eq in E; contradiction|].
  unfold find_peer. cbn [bk_members]. rewrite G. cbn [bk_members bk_remote bk_name bk_state bk_local]. rewrite G.
  assert (is_added (Ent 0 t []) = false) as IA by reflexivity.
  assert (is_removed (Ent 0 t []) = true) as IR by (unfold is_removed; cbn; apply Z.ltb_lt; lia).
  rewrite IA, IR. unfold cnt_dec. apply N.eqb_neq in NZ. rewrite NZ. reflexivity.
Qed.

(* one operation of p, merged by the observer *)
Lemma J_step b x o : J b x -> wf_op x o -> J (fst (swarm_merge b (payload_of o))) (src_step x o).
Proof.
  intros HJ (Hc & Hs & Ht & Hk). destruct HJ as [Jn Js Jt Jnd Jf Jm Jr].
  destruct (key_parts p (o_conn o) (o_ssid o) Hc Hs) as (KP & KC & KS).
  assert (0 <= s_max x) as Hmax by (destruct (Jt 0%N 0%N) as [[A B] _]; lia).
  assert (0 < o_t o) as Tpos by lia.
  pose proof (Js _ _ Hc Hs) as F0. destruct (Jt (o_conn o) (o_ssid o)) as [[A0 A1] [D0 D1]].
  assert (k_peer (op_key o) <> bk_name b) as Pn by (unfold op_key; rewrite KP; intros E; apply Jn; symmetry; exact E).
  unfold payload_of, src_step. destruct (o_kind o) eqn:K.
  - (* subscribe *)
    rewrite payload_add by exact Tpos.
    pose proof (state_merge_single_add (bk_state b) (op_key o) (o_t o) _ _ _ F0 ltac:(lia) D0 Tpos) as SM.
    rewrite (swarm_merge_single b _ _ _ SM).
    set (st' := <[op_key o := Ent (o_t o) (s_del x (o_conn o) (o_ssid o)) []]> (bk_state b)).
    assert (forall c s, (c < kbase)%N -> (s < kbase)%N ->
              fetch st' (mk_key p c s) = Ent (upd (s_add x) (o_conn o) (o_ssid o) (o_t o) c s) (s_del x c s) []) as Js'.
    { intros c s Hc' Hs'. unfold st'. rewrite fetch_insert. unfold upd, op_key. destruct (decide (mk_key p (o_conn o) (o_ssid o) = mk_key p c s)) as [E|N].
      - apply mk_key_inj in E; try assumption. destruct E as (_ & -> & ->). rewrite !N.eqb_refl. reflexivity.
      - rewrite Js by assumption. destruct ((c =? o_conn o)%N && (s =? o_ssid o)%N) eqn:E; [|reflexivity].
        apply andb_prop in E. destruct E as [E1 E2]. apply N.eqb_eq in E1. apply N.eqb_eq in E2. subst. contradiction. }
    assert (forall c s, 0 <= upd (s_add x) (o_conn o) (o_ssid o) (o_t o) c s <= o_t o /\ 0 <= s_del x c s <= o_t o) as Jt'.
    { intros c s. destruct (Jt c s) as [[B0 B1] [E0 E1]]. unfold upd. destruct ((c =? o_conn o)%N && (s =? o_ssid o)%N); lia. }
    assert (NoDup (set_add (o_conn o, o_ssid o) (s_live x))) as Jnd'.
    { unfold set_add. destruct (existsb _ _); [exact Jnd|]. apply NoDup_snoc; assumption. }
    destruct (s_any x) eqn:ANY.
    + (* the member exists *)
      destruct (Jm eq_refl) as (cnt & Gm & Gc).
      rewrite (mee_add _ _ _ _ _ _ _ cnt Tpos Pn) by (unfold op_key; rewrite KP; exact Gm).
      unfold op_key. rewrite KP, KS. fold (op_key o). fold st'.
      constructor; cbn [bk_name bk_state bk_members bk_remote s_live s_add s_del s_max s_any].
      * exact Jn.
      * exact Js'.
      * exact Jt'.
      * exact Jnd'.
      * discriminate.
      * intros _. eexists. split; [rewrite member_get_set, N.eqb_refl; reflexivity|]. intros s.
        rewrite cnt_get_set, count_set_add by exact Hk. rewrite !Gc. destruct (o_ssid o =? s)%N eqn:E; [apply N.eqb_eq in E; subst; lia | lia].
      * intros s. rewrite count_set_add by exact Hk. destruct (cnt_get cnt (o_ssid o) =? 0)%N eqn:Z0.
        -- rewrite in_set_add, Jr. apply N.eqb_eq in Z0. rewrite Gc in Z0. destruct (o_ssid o =? s)%N eqn:E.
           ++ apply N.eqb_eq in E. subst s. split; [lia | intros _; right; reflexivity].
           ++ apply N.eqb_neq in E. split; [intros [H|H]; [lia | inversion H; congruence] | intros H; left; lia].
        -- rewrite Jr. apply N.eqb_neq in Z0. rewrite Gc in Z0. destruct (o_ssid o =? s)%N eqn:E; [apply N.eqb_eq in E; subst s; lia | lia].
    + (* first sight of the peer *)
      destruct (Jf eq_refl) as (Gm & Gl & Ga).
      rewrite (mee_add_new _ _ _ _ _ _ _ Tpos Pn) by (unfold op_key; rewrite KP; exact Gm).
      unfold op_key. rewrite KP, KS. fold (op_key o). fold st'.
      assert (forall k, In k (subs_of st' p) <-> k = op_key o) as SO.
      { intros k. rewrite in_subs_of. split.
        - intros (Hp & e & L & Ad). destruct (decide (op_key o = k)) as [E|N]; [symmetry; exact E|]. exfalso.
          unfold st' in L. rewrite lookup_insert_ne in L by exact N.
          destruct (key_decompose k) as (Ek & Bc & Bs). rewrite Hp in Ek.
          pose proof (Js _ _ Bc Bs) as Fk. rewrite <- Ek in Fk. unfold fetch in Fk. rewrite L in Fk. cbn in Fk. subst e.
          rewrite Ga in Ad. unfold is_added in Ad. cbn in Ad. discriminate.
        - intros ->. split; [exact KP|]. eexists. split; [unfold st'; apply lookup_insert|].
          unfold is_added. cbn. destruct (o_t o =? 0) eqn:E; [apply Z.eqb_eq in E; lia|]. cbn. apply Z.leb_le. lia. }
      constructor; cbn [bk_name bk_state bk_members bk_remote s_live s_add s_del s_max s_any].
      * exact Jn.
      * exact Js'.
      * exact Jt'.
      * exact Jnd'.
      * discriminate.
      * intros _. eexists. split; [rewrite member_get_set, N.eqb_refl; reflexivity|]. intros s.
        rewrite cnt_get_set, Gl. cbn [cnt_get find]. unfold count, set_add. cbn. destruct (o_ssid o =? s)%N; reflexivity.
      * intros s. rewrite in_set_add, fold_set_add_in, Jr, Gl. unfold count, set_add. cbn [existsb app filter snd].
        destruct (o_ssid o =? s)%N eqn:E.
        -- apply N.eqb_eq in E. subst s. cbn. split; [lia | intros _; right; reflexivity].
        -- apply N.eqb_neq in E. cbn. split; [|lia]. intros [[H|(k & Hk2 & Hx)]|H]; [cbn in H; lia | | inversion H; congruence].
           apply SO in Hk2. subst k. unfold op_key in Hx. rewrite KS in Hx. inversion Hx. congruence.
  - (* unsubscribe *)
    rewrite payload_del by exact Tpos.
    pose proof (state_merge_single_del (bk_state b) (op_key o) (o_t o) _ _ _ F0 ltac:(lia) A0 Tpos) as SM.
    rewrite (swarm_merge_single b _ _ _ SM).
    set (st' := <[op_key o := Ent (s_add x (o_conn o) (o_ssid o)) (o_t o) []]> (bk_state b)).
    assert (s_any x = true) as ANY.
    { destruct (s_any x) eqn:E; [reflexivity|]. destruct (Jf eq_refl) as (_ & Gl & _). rewrite Gl in Hk. destruct Hk. }
    destruct (Jm ANY) as (cnt & Gm & Gc).
    assert (0 < count (o_ssid o) (s_live x))%N as CP by (apply count_pos; exists (o_conn o); exact Hk).
    assert (member_get (bk_members b) (k_peer (op_key o)) = Some cnt) as Gm' by (unfold op_key; rewrite KP; exact Gm).
    assert (cnt_get cnt (k_ssid (op_key o)) <> 0%N) as NZ by (unfold op_key; rewrite KS, Gc; lia).
    rewrite (mee_del _ _ _ _ _ _ _ cnt Tpos Pn Gm' NZ).
    unfold op_key. rewrite KP, KS. fold (op_key o). fold st'.
    constructor; cbn [bk_name bk_state bk_members bk_remote s_live s_add s_del s_max s_any].
    + exact Jn.
    + intros c s Hc' Hs'. unfold st'. rewrite fetch_insert. unfold upd, op_key. destruct (decide (mk_key p (o_conn o) (o_ssid o) = mk_key p c s)) as [E|N].
      * apply mk_key_inj in E; try assumption. destruct E as (_ & -> & ->). rewrite !N.eqb_refl. reflexivity.
      * rewrite Js by assumption. destruct ((c =? o_conn o)%N && (s =? o_ssid o)%N) eqn:E; [|reflexivity].
        apply andb_prop in E. destruct E as [E1 E2]. apply N.eqb_eq in E1. apply N.eqb_eq in E2. subst. contradiction.
    + intros c s. destruct (Jt c s) as [[B0 B1] [E0 E1]]. unfold upd. destruct ((c =? o_conn o)%N && (s =? o_ssid o)%N); lia.
    + unfold set_del. apply NoDup_filter. exact Jnd.
    + discriminate.
    + intros _. eexists. split; [rewrite member_get_set, N.eqb_refl; reflexivity|]. intros s.
      rewrite cnt_get_set, count_set_del by assumption. rewrite !Gc. destruct (o_ssid o =? s)%N eqn:E; [apply N.eqb_eq in E; subst; reflexivity | lia].
    + intros s. rewrite count_set_del by assumption. rewrite Gc. destruct (count (o_ssid o) (s_live x) =? 1)%N eqn:Z1.
      * rewrite in_set_del, Jr. apply N.eqb_eq in Z1. destruct (o_ssid o =? s)%N eqn:E.
        -- apply N.eqb_eq in E. subst s. split; [intros [_ H]; exfalso; apply H; reflexivity | lia].
        -- apply N.eqb_neq in E. split; [intros [H _]; lia | intros H; split; [lia | intros H2; inversion H2; congruence]].
      * rewrite Jr. apply N.eqb_neq in Z1. destruct (o_ssid o =? s)%N eqn:E; [apply N.eqb_eq in E; subst s; lia | lia].
Qed.

(* steps of the observer that do not concern p *)
Definition same_p (b b' : broker) : Prop :=
  bk_name b' = bk_name b
  /\ (forall k, k_peer k = p -> fetch (bk_state b') k = fetch (bk_state b) k)
  /\ member_get (bk_members b') p = member_get (bk_members b) p
  /\ (forall s, In (s, p) (bk_remote b') <-> In (s, p) (bk_remote b)).

Lemma J_foreign b b' x : same_p b b' -> J b x -> J b' x.
Proof.
  intros (N & S & M & R) [Jn Js Jt Jnd Jf Jm Jr]. constructor.
  - rewrite N. exact Jn.
  - intros c s Hc Hs. rewrite S; [apply Js; assumption|]. apply key_parts; assumption.
  - exact Jt.
  - exact Jnd.
  - intros H. rewrite M. apply Jf. exact H.
  - intros H. rewrite M. apply Jm. exact H.
  - intros s. rewrite R. apply Jr.
Qed.

(* a broker that knows nothing of p yet *)
Definition blank (b : broker) : Prop :=
  bk_name b <> p /\ (forall k, k_peer k = p -> fetch (bk_state b) k = zero_entry)
  /\ member_get (bk_members b) p = None /\ (forall s, ~ In (s, p) (bk_remote b)).

Lemma J_init b : blank b -> J b src0.
Proof.
  intros (Hn & Hs & Hm & Hr). constructor; cbn.
  - exact Hn.
  - intros c s Hc Hk. apply Hs. apply key_parts; assumption.
  - intros c s. lia.
  - constructor.
  - intros _. auto.
  - discriminate.
  - intros s. split; [intros H; exfalso; exact (Hr s H) | unfold count; cbn; lia].
Qed.

(* every state the observer reaches by merging p's operations in order, once each, interleaved with
   steps that do not concern p *)
Inductive reaches : broker -> src -> Prop :=
| r_init b : blank b -> reaches b src0
| r_op b x o : reaches b x -> wf_op x o -> reaches (fst (swarm_merge b (payload_of o))) (src_step x o)
| r_foreign b b' x : reaches b x -> same_p b b' -> reaches b' x.

Lemma reaches_J b x : reaches b x -> J b x.
Proof.
  induction 1 as [b H | b x o _ IH W | b b' x _ IH S]; [apply J_init; exact H | apply J_step; assumption | eapply J_foreign; eassumption].
Qed.

(* the observer forwards a channel to p exactly when p has a live local subscriber for it *)
Theorem observer_routes_exactly b x : reaches b x ->
  forall s, In (s, p) (bk_remote b) <-> exists c, In (c, s) (s_live x).
Proof. intros H s. rewrite (j_remote _ _ (reaches_J _ _ H)). apply count_pos. Qed.

(* the model's own steps that do not concern p *)
Lemma local_sub_foreign b conn ssid t : bk_name b <> p -> (conn < kbase)%N -> (ssid < kbase)%N ->
  same_p b (fst (local_sub b conn ssid t)).
Proof.
  intros Hn Hc Hs. unfold local_sub, same_p. cbn [fst bk_name bk_state bk_members bk_remote].
  split; [reflexivity|]. split; [|split; [reflexivity | intros s; reflexivity]].
  intros k Hk. unfold lww_add. destruct (_ <? t); [|reflexivity]. rewrite fetch_insert.
  destruct (decide (mk_key (bk_name b) conn ssid = k)) as [E|_]; [|reflexivity].
  exfalso. subst k. destruct (key_parts (bk_name b) conn ssid Hc Hs) as (P & _). rewrite P in Hk. contradiction.
Qed.

Lemma local_unsub_foreign b conn ssid t : bk_name b <> p -> (conn < kbase)%N -> (ssid < kbase)%N ->
  same_p b (fst (local_unsub b conn ssid t)).
Proof.
  intros Hn Hc Hs. unfold local_unsub, same_p. cbn [fst bk_name bk_state bk_members bk_remote].
  split; [reflexivity|]. split; [|split; [reflexivity | intros s; reflexivity]].
  intros k Hk. unfold lww_del. destruct (_ <? t); [|reflexivity]. rewrite fetch_insert.
  destruct (decide (mk_key (bk_name b) conn ssid = k)) as [E|_]; [|reflexivity].
  exfalso. subst k. destruct (key_parts (bk_name b) conn ssid Hc Hs) as (P & _). rewrite P in Hk. contradiction.
Qed.

Lemma find_peer_other (b : broker) q : q <> p ->
  bk_name (find_peer b q) = bk_name b /\ bk_state (find_peer b q) = bk_state b
  /\ member_get (bk_members (find_peer b q)) p = member_get (bk_members b) p
  /\ (forall s, In (s, p) (bk_remote (find_peer b q)) <-> In (s, p) (bk_remote b)).
Proof.
  intros Hq. unfold find_peer. destruct (member_get (bk_members b) q); [repeat split; auto|].
  cbn [bk_name bk_state bk_members bk_remote]. repeat split; try reflexivity.
  - rewrite member_get_set. destruct (q =? p)%N eqn:E; [apply N.eqb_eq in E; contradiction | reflexivity].
  - rewrite fold_set_add_in. intros [H|(k & _ & H)]; [exact H | inversion H; congruence].
  - intros H. apply fold_set_add_in. left. exact H.
Qed.

Lemma mee_other (acc : broker) k v : k_peer k <> p ->
  bk_name (merge_entry_effect acc k v) = bk_name acc /\ bk_state (merge_entry_effect acc k v) = bk_state acc
  /\ member_get (bk_members (merge_entry_effect acc k v)) p = member_get (bk_members acc) p
  /\ (forall s, In (s, p) (bk_remote (merge_entry_effect acc k v)) <-> In (s, p) (bk_remote acc)).
Proof.
  intros Hk. unfold merge_entry_effect. destruct (k_peer k =? bk_name acc)%N; [repeat split; auto|].
  destruct (find_peer_other acc (k_peer k) Hk) as (F1 & F2 & F3 & F4).
  set (b1 := find_peer acc (k_peer k)) in *.
  set (c0 := match member_get (bk_members b1) (k_peer k) with Some c => c | None => [] end).
  destruct (if is_added v then cnt_inc c0 (k_ssid k) else (c0, false)) as [c1 first].
  destruct (if is_removed v then cnt_dec c1 (k_ssid k) else (c1, false)) as [c2 last].
  cbn [bk_name bk_state bk_members bk_remote].
  split; [exact F1|]. split; [exact F2|]. split.
  - rewrite member_get_set. destruct (k_peer k =? p)%N eqn:E; [apply N.eqb_eq in E; contradiction | exact F3].
  - intros s. destruct first, last; rewrite ?in_set_del, ?in_set_add, F4.
    + split; [intros [[H|H] _]; [exact H | inversion H; congruence] | intros H; split; [left; exact H | intros E; inversion E; congruence]].
    + split; [intros [H|H]; [exact H | inversion H; congruence] | intros H; left; exact H].
    + split; [intros [H _]; exact H | intros H; split; [exact H | intros E; inversion E; congruence]].
    + reflexivity.
Qed.

Lemma swarm_merge_foreign b (payload : replica) :
  (forall k e, payload !! k = Some e -> k_peer k <> p) -> same_p b (fst (swarm_merge b payload)).
Proof.
  intros HP. unfold swarm_merge, state_merge.
  assert (forall k, k_peer k = p -> fetch (lww_merge (bk_state b) payload) k = fetch (bk_state b) k) as SF.
  { intros k Hk. unfold fetch. rewrite lookup_lww_merge. destruct (payload !! k) as [e|] eqn:E; [exfalso; exact (HP _ _ E Hk) | reflexivity]. }
  destruct (decide (lww_delta (bk_state b) payload = ∅)) as [_|_]; cbn [fst].
  - unfold same_p. cbn [bk_name bk_state bk_members bk_remote]. repeat split; auto.
  - set (b0 := BK (bk_name b) (lww_merge (bk_state b) payload) (bk_members b) (bk_remote b) (bk_local b)).
    assert (forall l acc, (forall ke, In ke l -> k_peer (fst ke) <> p) ->
              let r := fold_left (fun acc ke => merge_entry_effect acc (fst ke) (snd ke)) l acc in
              bk_name r = bk_name acc /\ bk_state r = bk_state acc
              /\ member_get (bk_members r) p = member_get (bk_members acc) p
              /\ (forall s, In (s, p) (bk_remote r) <-> In (s, p) (bk_remote acc))) as FL.
    { induction l as [|ke l IH]; intros acc Hl; cbn [fold_left]; [repeat split; auto|].
      destruct (mee_other acc (fst ke) (snd ke) (Hl ke (or_introl eq_refl))) as (M1 & M2 & M3 & M4).
      destruct (IH (merge_entry_effect acc (fst ke) (snd ke)) (fun x Hx => Hl x (or_intror Hx))) as (I1 & I2 & I3 & I4).
      cbn zeta in *. rewrite I1, I2, I3. repeat split; auto; try congruence.
      - intros H. apply M4, I4. exact H.
      - intros H. apply I4, M4. exact H. }
    destruct (FL (map_to_list (lww_delta (bk_state b) payload)) b0) as (R1 & R2 & R3 & R4).
    { intros [k e] Hin. cbn. apply elem_of_list_In, elem_of_map_to_list in Hin. rewrite lookup_lww_delta in Hin.
      destruct (payload !! k) as [e'|] eqn:E; [exact (HP _ _ E) | discriminate]. }
    unfold same_p. cbn zeta in *. rewrite R1, R2, R3. cbn [b0 bk_name bk_state bk_members bk_remote]. repeat split; auto.
    + intros H. apply R4 in H. exact H.
    + intros H. apply R4. exact H.
Qed.

End observer.
