// Harness for C20 (and the cipher part of C12): licences of the three versions, their ciphers,
// key encryption/decryption, malformed key and licence strings.
package main

import (
	"encoding/base64"
	"fmt"
	"strings"

	"github.com/emitter-io/emitter/internal/security"
	"github.com/emitter-io/emitter/internal/security/license"
	"github.com/emitter-io/emitter/internal/zzverif/vlib"
	"github.com/golang/snappy"
)

var cfg *vlib.Config

const alphabet = "ABCDEFGHIJKLMNOPQRSTUVWXYZabcdefghijklmnopqrstuvwxyz0123456789-_"

func randKey() security.Key {
	r := cfg.Rng
	k := security.Key(vlib.RandBytes(r, 24))
	switch r.Intn(6) {
	case 0:
		for i := range k {
			k[i] = 0
		}
	case 1:
		for i := range k {
			k[i] = 255
		}
	case 2:
		k[0], k[1] = byte(vlib.Pick(r, 0, 255)), byte(vlib.Pick(r, 0, 255))
	case 3:
		k[15] = byte(vlib.Pick(r, 0, 1, 2, 255, 127, 128))
	}
	return k
}

// cipherTerm returns the Coq term of the cipher of licence l, for keys/strings whose salt bytes are s0,s1.
func cipherTerm(l license.License, c license.Cipher, s0, s1 byte) string {
	switch v := l.(type) {
	case *license.V1:
		raw, _ := base64.RawURLEncoding.DecodeString(v.EncryptionKey)
		w := make([]string, 4)
		for i := 0; i < 4; i++ {
			w[i] = vlib.N(uint64(raw[4*i])<<24 | uint64(raw[4*i+1])<<16 | uint64(raw[4*i+2])<<8 | uint64(raw[4*i+3]))
		}
		return "(CXtea (fun i => nth (N.to_nat i) " + vlib.List(w) + " 0))"
	case *license.V2:
		z := make(security.Key, 24)
		s, _ := c.EncryptKey(z)
		ks, _ := base64.RawURLEncoding.DecodeString(s)
		return "(CSalsa " + vlib.Bytes(ks) + ")"
	default:
		z := make(security.Key, 24)
		z[0], z[1] = s0, s1
		s, _ := c.EncryptKey(z)
		ks, _ := base64.RawURLEncoding.DecodeString(s)
		return "(CShuffle (fun _ _ => " + vlib.Bytes(ks[2:]) + "))"
	}
}

func decTerm(c license.Cipher, s []byte) string {
	buf := append([]byte{}, s...)
	var k security.Key
	var err error
	p, _ := vlib.Catch(func() { k, err = c.DecryptKey(buf) })
	if p {
		return "Panic"
	}
	if err != nil {
		if strings.Contains(err.Error(), "not valid") {
			return "(Err KBadLength)"
		}
		return "(Err KCorrupt)"
	}
	return vlib.App("Ok", vlib.Bytes(k))
}

func saltOf(s []byte) (byte, byte) {
	// salt bytes of the decoded string, when it decodes
	if len(s) >= 3 {
		if raw, err := base64.RawURLEncoding.DecodeString(string(s[:len(s)/4*4])); err == nil && len(raw) >= 2 {
			return raw[0], raw[1]
		}
	}
	return 0, 0
}

func main() {
	cfg = vlib.ParseFlags()
	r := cfg.Rng
	sh := vlib.NewShards(cfg.Out, "C20", "From Emitter Require Import Lib.Base Model.MsgCodec Model.Cipher Check.C20.", "case", "check", 150)

	var lics []license.License
	for i := 0; i < 4*cfg.Mult; i++ {
		lics = append(lics, license.NewV1(), license.NewV2(), license.NewV3())
	}
	// licences whose contract, signature and master index sit at the boundaries of the variable-length
	// integers of their encoding (the text form then ends in every base64 character)
	for _, idx := range []uint32{0, 1, 2, 54, 55, 63, 64, 118, 127, 128, 255, 256, 300, 16383, 16384} {
		for _, us := range [][2]uint32{{1, 1}, {1<<14 + 3, 1<<21 + 5}, {1<<21 - 1, 1<<28 - 1}, {1<<28 + 1, 1<<28 + 7}, {1 << 31, 1<<32 - 1}} {
			v2 := license.NewV2()
			v2.User, v2.Sign, v2.Index = us[0], us[1], idx
			v3 := license.NewV3()
			v3.User, v3.Sign, v3.Index = us[0], us[1], idx
			lics = append(lics, v2, v3)
		}
	}
	// 1. licences round trip
	for _, l := range lics {
		s := l.String()
		var back license.License
		var err error
		p, _ := vlib.Catch(func() { back, err = license.Parse(s) })
		ok := !p && err == nil && back.Contract() == l.Contract() && back.Signature() == l.Signature() && back.Master() == l.Master() && back.String() == s
		// same cipher: encrypts a probe key to the same string
		if ok {
			c1, e1 := l.Cipher()
			c2, e2 := back.Cipher()
			probe := security.Key(vlib.RandBytes(r, 24))
			if e1 != nil || e2 != nil {
				ok = false
			} else {
				a, _ := c1.EncryptKey(probe)
				b, _ := c2.EncryptKey(probe)
				ok = a == b
			}
		}
		body := s[:len(s)-2]
		raw, _ := base64.RawURLEncoding.DecodeString(body)
		switch v := l.(type) {
		case *license.V1:
			key, _ := base64.RawURLEncoding.DecodeString(v.EncryptionKey)
			exp := uint64(0)
			if u := v.Expires.Unix(); u > 0 {
				exp = uint64(u - 1262304000)
			}
			sh.Add(vlib.App("CLic1", vlib.App("Lic1", vlib.Bytes(key), vlib.N(uint64(v.User)), vlib.N(uint64(v.Sign)), vlib.N(exp), vlib.N(uint64(v.Type))),
				vlib.Bytes(raw), vlib.Bool(ok)), map[string]interface{}{"op": "licence v1"}, "licence/v1", true)
		case *license.V2:
			inner, _ := snappy.Decode(nil, raw)
			sh.Add(vlib.App("CLic2", vlib.App("Lic2", vlib.Bytes(v.EncryptionKey), vlib.Bytes(v.EncryptionSalt), vlib.N(uint64(v.User)), vlib.N(uint64(v.Sign)), vlib.N(uint64(v.Index))),
				vlib.Bytes(inner), vlib.Bool(ok)), map[string]interface{}{"op": "licence v2"}, "licence/v2", true)
		case *license.V3:
			inner, _ := snappy.Decode(nil, raw)
			sh.Add(vlib.App("CLic2", vlib.App("Lic2", vlib.Bytes(v.EncryptionKey), vlib.Bytes(v.EncryptionSalt), vlib.N(uint64(v.User)), vlib.N(uint64(v.Sign)), vlib.N(uint64(v.Index))),
				vlib.Bytes(inner), vlib.Bool(ok)), map[string]interface{}{"op": "licence v3"}, "licence/v3", true)
		}
	}
	// 2. keys under every cipher.  Three instances of the cipher of one licence are in play, as in a
	// running broker: a fresh one encrypts (first use after parsing), a long-lived one that has seen
	// other keys decrypts, and a third, warmed-up one measures the keystream for the model.
	shared := map[license.License]license.Cipher{}
	ref := map[license.License]license.Cipher{}
	for _, l := range lics {
		shared[l], _ = l.Cipher()
		ref[l], _ = l.Cipher()
		warm := security.Key(vlib.RandBytes(r, 24))
		warm[0], warm[1] = 1, 1
		ref[l].EncryptKey(warm)
	}
	for i := 0; i < 600*cfg.Mult; i++ {
		l := lics[r.Intn(len(lics))]
		c, err := l.Cipher()
		if err != nil {
			panic(err)
		}
		k := randKey()
		s, _ := c.EncryptKey(k)
		dec := shared[l]
		if r.Intn(4) == 0 {
			dec = c
		}
		sh.Add(vlib.App("CKey", cipherTerm(l, ref[l], k[0], k[1]), vlib.Bytes(k), vlib.Str(s), decTerm(dec, []byte(s))),
			map[string]interface{}{"op": "encrypt+decrypt", "licence": fmt.Sprintf("%T", l), "key": []byte(k)}, fmt.Sprintf("key/%T", l), true)
	}
	// 3. candidate key strings: wrong lengths, characters outside the alphabet, mutated valid strings
	for i := 0; i < 500*cfg.Mult; i++ {
		l := lics[r.Intn(len(lics))]
		c, _ := l.Cipher()
		valid, _ := c.EncryptKey(randKey())
		s := []byte(valid)
		class := ""
		switch r.Intn(5) {
		case 0:
			n := vlib.Pick(r, 0, 1, 2, 3, 4, 30, 31, 33, 34, 36, 64)
			s = make([]byte, n)
			for j := range s {
				s[j] = alphabet[r.Intn(64)]
			}
			class = "badkey/length"
		case 1:
			s[r.Intn(32)] = byte(vlib.Pick(r, '=', '+', '/', ' ', 0, 255, '.', '@', '[', '`', '{', ':'))
			class = "badkey/char"
		case 2:
			s = vlib.RandBytes(r, 32)
			class = "badkey/random32"
		case 3:
			s[r.Intn(32)] = alphabet[r.Intn(64)]
			class = "badkey/valid-mutation"
		default:
			s = append(s[:31], byte(r.Intn(256)))
			class = "badkey/last"
		}
		s0, s1 := saltOf(s)
		sh.Add(vlib.App("CStr", cipherTerm(l, c, s0, s1), vlib.Bytes(s), decTerm(c, s)),
			map[string]interface{}{"op": "decrypt candidate", "string": s}, class, true)
	}
	// 4. licence strings: outcome class only (licence / error / panic)
	for i := 0; i < 300*cfg.Mult; i++ {
		var s string
		class := ""
		base := lics[r.Intn(len(lics))].String()
		switch r.Intn(6) {
		case 0: // short v1 bodies
			n := r.Intn(44)
			b := make([]byte, n)
			for j := range b {
				b[j] = alphabet[r.Intn(64)]
			}
			s = string(b) + vlib.Pick2(r, "", ":1")
			class = "badlic/short-v1"
		case 1:
			b := []byte(base)
			b[r.Intn(len(b))] = alphabet[r.Intn(64)]
			s = string(b)
			class = "badlic/mutated"
		case 2:
			s = base[:r.Intn(len(base))]
			class = "badlic/truncated"
		case 3: // v2/v3 with a negative length (>= 2^63) in the inner encoding
			inner := []byte{0x80, 0x80, 0x80, 0x80, 0x80, 0x80, 0x80, 0x80, 0x80, 0x01, 1, 2, 3}
			s = base64.RawURLEncoding.EncodeToString(snappy.Encode(nil, inner)) + vlib.Pick2(r, ":2", ":3")
			class = "badlic/negative-length"
		case 4:
			inner := vlib.RandBytes(r, r.Intn(12))
			s = base64.RawURLEncoding.EncodeToString(snappy.Encode(nil, inner)) + vlib.Pick2(r, ":2", ":3")
			class = "badlic/random-inner"
			switch r.Intn(4) {
			case 0: // the key announces more bytes than there are (up to 2^45)
				inner = append([]byte{0x80, 0x80, 0x80, 0x80, byte(1 + r.Intn(100))}, vlib.RandBytes(r, r.Intn(6))...)
				s = base64.RawURLEncoding.EncodeToString(snappy.Encode(nil, inner)) + vlib.Pick2(r, ":2", ":3")
				class = "badlic/key-length-inflated"
			case 1: // a short key, then a salt that announces more bytes than there are
				inner = append([]byte{2, 7, 7, 0x80, 0x80, 0x80, 0x80, byte(1 + r.Intn(100))}, vlib.RandBytes(r, r.Intn(6))...)
				s = base64.RawURLEncoding.EncodeToString(snappy.Encode(nil, inner)) + vlib.Pick2(r, ":2", ":3")
				class = "badlic/salt-length-inflated"
			case 2: // the compressed form announces a decoded length of 1 GiB
				s = base64.RawURLEncoding.EncodeToString(append([]byte{0x80, 0x80, 0x80, 0x80, 0x04}, vlib.RandBytes(r, 4)...)) + vlib.Pick2(r, ":2", ":3")
				class = "badlic/snappy-length-inflated"
			}
		default:
			s = string(vlib.RandBytes(r, r.Intn(50)))
			class = "badlic/random"
		}
		outcome := "LicOk"
		var err error
		p, _ := vlib.Catch(func() { _, err = license.Parse(s) })
		if p {
			outcome = "LicPanic"
		} else if err != nil {
			outcome = "LicErr"
		}
		body := s
		ver := uint64(1)
		if strings.HasSuffix(s, ":1") {
			body = s[:len(s)-2]
		} else if strings.HasSuffix(s, ":2") || strings.HasSuffix(s, ":3") {
			body = s[:len(s)-2]
			ver = 2
		}
		rawOK := false
		var raw []byte
		if len(s) >= 5 {
			if b, e := base64.RawURLEncoding.DecodeString(body); e == nil {
				rawOK, raw = true, b
			}
		}
		sh.Add(vlib.App("CLicStr", vlib.N(ver), vlib.N(uint64(len(s))), vlib.Opt(rawOK, vlib.Bytes(raw)), outcome),
			map[string]interface{}{"op": "parse licence", "string": s}, class, true)
	}
	sh.Finish("licences of versions 1-3 (String/Parse, same cipher); 24-byte keys incl. all-zero, all-0xFF, salt and permission extremes under the cipher of each licence; candidate key strings of wrong length, with characters outside the alphabet, random, and single-character mutations of valid strings; licence strings short, mutated, truncated, with hostile inner lengths; non-trivial: all")
}
