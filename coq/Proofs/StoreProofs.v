(* C06: what every history answer satisfies, for every store content and every query. *)
From Emitter Require Import Lib.Base Model.MsgCodec Model.Store Proofs.ListFacts.
From Coq Require Import Lia ZifyN ZifyNat ZifyBool Permutation.
Set Default Timeout 120.

Definition msize (m : msg) : N := len (m_payload m) + len (m_id m) + len (m_chan m).
Definition total_size (l : list msg) : N := fold_right (fun m a => msize m + a) 0 l.

Lemma total_size_app a b : total_size (a ++ b) = total_size a + total_size b.
Proof.
  unfold total_size. induction a as [|x a IH]; cbn [app fold_right]; [lia|]. rewrite IH. lia.
Qed.

Lemma total_size_rev a : total_size (rev a) = total_size a.
Proof.
  induction a as [|x a IH]; [reflexivity|]. cbn [rev]. rewrite total_size_app, IH.
  unfold total_size. cbn [fold_right]. lia.
Qed.

(* the scan only ever adds entries that pass ID.Match, keeps their order, stops at the limit and
   below the reply-size cap *)
Lemma scan_spec : forall es ssid from until limit acc size,
  let out := scan es ssid from until limit acc size in
  exists added,
    out = rev acc ++ added
    /\ (forall m, In m added -> exists e, In e es /\ m = e_msg e /\ id_match (m_id m) ssid from until = true
                                          /\ id_has_prefix (m_id m) ssid from = true)
    /\ (len acc <= limit -> len out <= limit)
    /\ (size = total_size acc -> size <= maxMessageSize -> total_size out <= maxMessageSize).
Proof.
  induction es as [|e r IH]; intros ssid from until limit acc size; cbn [scan]; cbv zeta.
  - exists []. rewrite app_nil_r. repeat split; try tauto.
    + intros m [].
    + unfold len. rewrite rev_length. tauto.
    + intros -> H. rewrite total_size_rev. exact H.
  - destruct (negb (id_has_prefix (m_id (e_msg e)) ssid from) || negb (len acc <? limit)) eqn:Stop.
    + exists []. rewrite app_nil_r. repeat split; try tauto.
      * intros m [].
      * unfold len. rewrite rev_length. tauto.
      * intros -> H. rewrite total_size_rev. exact H.
    + apply orb_false_iff in Stop. destruct Stop as [P L]. apply negb_false_iff in P, L.
      destruct (negb (id_match (m_id (e_msg e)) ssid from until)) eqn:M.
      * destruct (IH ssid from until limit acc size) as (added & E & A & B & C). cbv zeta in E, B, C.
        exists added. repeat split; try assumption.
        intros m Hm. destruct (A m Hm) as (e0 & I & X). exists e0. split; [right; exact I | exact X].
      * apply negb_false_iff in M.
        destruct (maxMessageSize <? len (m_payload (e_msg e)) + len (m_id (e_msg e)) + len (m_chan (e_msg e))) eqn:Own.
        { destruct (IH ssid from until limit acc size) as (added & E & A & B & C). cbv zeta in E, B, C.
          exists added. repeat split; try assumption.
          intros m Hm. destruct (A m Hm) as (e0 & I & X). exists e0. split; [right; exact I | exact X]. }
        destruct (maxMessageSize <? size + (len (m_payload (e_msg e)) + len (m_id (e_msg e)) + len (m_chan (e_msg e)))) eqn:Cap.
        -- exists []. rewrite app_nil_r. repeat split; try tauto.
           ++ intros m [].
           ++ unfold len. rewrite rev_length. tauto.
           ++ intros -> H. rewrite total_size_rev. exact H.
        -- destruct (IH ssid from until limit (e_msg e :: acc)
                        (size + (len (m_payload (e_msg e)) + len (m_id (e_msg e)) + len (m_chan (e_msg e)))))
             as (added & E & A & B & C). cbv zeta in E, B, C.
           exists (e_msg e :: added). repeat split.
           ++ rewrite E. cbn [rev]. rewrite <- app_assoc. reflexivity.
           ++ intros m [<-|Hm].
              ** exists e. repeat split; [left; reflexivity | exact M | exact P].
              ** destruct (A m Hm) as (e0 & I & X). exists e0. split; [right; exact I | exact X].
           ++ intros H. apply B. rewrite len_cons. lia.
           ++ intros -> H. apply C.
              ** unfold total_size. cbn [fold_right]. unfold msize. lia.
              ** lia.
Qed.

Lemma In_seek e es k : In e (seek es k) -> In e es.
Proof.
  induction es as [|x r IH]; [intros []|]. cbn [seek]. destruct (lex_ltb _ _); [intros H; right; exact (IH H) | tauto].
Qed.
Lemma In_tl {A} (x : A) l : In x (tl l) -> In x l.
Proof. destruct l; [intros [] | intros H; right; exact H]. Qed.

Lemma In_seek_next e es k : In e (seek_next es k) -> In e es.
Proof.
  unfold seek_next. destruct (seek es k) as [|x r] eqn:E; [intros []|].
  intros H. apply (In_seek e es k). rewrite E. destruct (bytes_eqb _ _); [right; exact H | exact H].
Qed.

(* every message of a lookup is a live entry of the store that passes ID.Match and ID.HasPrefix;
   at most [limit] of them; within the reply-size cap *)
Theorem lookup_sound s now ssid from until start limit :
  let out := lookup s now ssid from until start limit in
  (forall m, In m out -> exists e, In e s /\ m = e_msg e /\ visible now e = true
                                   /\ id_match (m_id m) ssid from until = true
                                   /\ id_has_prefix (m_id m) ssid from = true)
  /\ len out <= limit /\ total_size out <= maxMessageSize.
Proof.
  cbv zeta. unfold lookup.
  set (vis := filter (visible now) s).
  set (pos := match start with
              | [] => match new_prefix ssid until with Ok p => seek vis p | _ => [] end
              | _ => seek_next vis start end).
  destruct (scan_spec pos ssid from until limit [] 0) as (added & E & A & B & C). cbv zeta in E, B, C.
  rewrite E. cbn [rev app]. rewrite E in B, C. cbn [rev app] in B, C.
  assert (Sub : forall e, In e pos -> In e vis).
  { intros e H. subst pos. destruct start as [|b st].
    - destruct (new_prefix ssid until) as [p| |]; [exact (In_seek _ _ _ H) | destruct H | destruct H].
    - apply In_seek_next in H. exact H. }
  split; [|split].
  - intros m Hm. destruct (A m Hm) as (e & I & -> & M & P). exists e.
    apply Sub in I. unfold vis in I. apply filter_In in I. destruct I as [I V]. auto.
  - apply B. rewrite len_nil. lia.
  - apply C; [reflexivity | unfold maxMessageSize; lia].
Qed.

(* ---- Frame.Limit ---- *)
Lemma insert_perm m l : Permutation (insert_by_time m l) (m :: l).
Proof.
  induction l as [|x r IH]; cbn [insert_by_time]; [apply Permutation_refl|].
  destruct (msg_time m <? msg_time x)%Z; [apply Permutation_refl|].
  apply perm_trans with (x :: m :: r); [apply perm_skip; exact IH | apply perm_swap].
Qed.

Lemma sort_perm_gen : forall l acc, Permutation (fold_left (fun a m => insert_by_time m a) l acc) (l ++ acc).
Proof.
  induction l as [|m l IH]; intros acc; cbn [fold_left app]; [apply Permutation_refl|].
  apply perm_trans with (l ++ insert_by_time m acc); [apply IH|].
  apply perm_trans with (l ++ m :: acc); [apply Permutation_app_head, insert_perm|].
  apply Permutation_sym, Permutation_middle.
Qed.

Lemma sort_perm l : Permutation (sort_by_time l) l.
Proof. unfold sort_by_time. rewrite <- (app_nil_r l) at 2. apply sort_perm_gen. Qed.

Fixpoint sorted_time (l : list msg) : Prop :=
  match l with
  | a :: ((b :: _) as r) => (msg_time a <= msg_time b)%Z /\ sorted_time r
  | _ => True
  end.

Lemma insert_sorted m l : sorted_time l -> sorted_time (insert_by_time m l).
Proof.
  induction l as [|x r IH]; intros S; cbn [insert_by_time]; [exact I|].
  destruct (Z.ltb_spec (msg_time m) (msg_time x)) as [Hlt|Hge].
  - cbn [sorted_time]. split; [lia | exact S].
  - destruct r as [|y r'].
    + cbn [insert_by_time sorted_time]. split; [lia | exact I].
    + cbn [sorted_time] in S. destruct S as [S1 S2]. specialize (IH S2).
      cbn [insert_by_time] in *. destruct (Z.ltb_spec (msg_time m) (msg_time y)); cbn [sorted_time] in *; tauto || (split; [lia|]; tauto).
Qed.

Lemma sort_sorted_gen : forall l acc, sorted_time acc -> sorted_time (fold_left (fun a m => insert_by_time m a) l acc).
Proof. induction l as [|m l IH]; intros acc S; cbn [fold_left]; [exact S|]. apply IH, insert_sorted, S. Qed.

Lemma sorted_skipn : forall n l, sorted_time l -> sorted_time (skipn n l).
Proof.
  induction n as [|n IH]; intros l S; [exact S|]. destruct l as [|a l]; [exact I|]. cbn [skipn]. apply IH.
  destruct l; [exact I | apply S].
Qed.

Lemma In_skipn {A} (x : A) : forall n l, In x (skipn n l) -> In x l.
Proof. induction n as [|n IH]; intros l H; [exact H|]. destruct l; [exact H | right; exact (IH _ H)]. Qed.

(* the answer of Storage.Query: ordered by non-decreasing time, drawn from the lookup *)
Theorem frame_limit_spec l n :
  sorted_time (frame_limit l n) /\ (forall m, In m (frame_limit l n) -> In m l) /\ (len l <= n -> len (frame_limit l n) = len l).
Proof.
  unfold frame_limit.
  assert (S : sorted_time (sort_by_time l)) by (apply sort_sorted_gen; exact I).
  assert (P : forall m, In m (sort_by_time l) -> In m l) by (intros m H; exact (Permutation_in m (sort_perm l) H)).
  assert (L : len (sort_by_time l) = len l) by (unfold len; rewrite (Permutation_length (sort_perm l)); reflexivity).
  destruct (n <? len (sort_by_time l)) eqn:E.
  - split; [apply sorted_skipn; exact S | split].
    + intros m H. apply P. exact (In_skipn _ _ _ H).
    + intros H. lia.
  - split; [exact S | split; [exact P | intros _; exact L]].
Qed.
