// Harness for C09: hostile input.  In-process: DecodePacket looped over hostile streams the way
// Conn.Process does, the history pre-allocation, and the handlers of Swarm for unicast frames and
// gossip payloads (snappy-wrapped hostile inner payloads, and raw bytes), each call with a panic
// catcher, an allocation counter and a watchdog.  In a child process with an address-space ceiling:
// a live broker attacked over many connections while a canary client keeps publishing and receiving.
package main

import (
	"bufio"
	"bytes"
	"context"
	"encoding/json"
	"errors"
	"fmt"
	"io"
	"math/rand"
	"net"
	"os"
	"os/exec"
	"path/filepath"
	"runtime"
	"strconv"
	"strings"
	"sync"
	"syscall"
	"time"

	"github.com/emitter-io/emitter/internal/broker"
	"github.com/emitter-io/emitter/internal/config"
	"github.com/emitter-io/emitter/internal/event"
	"github.com/emitter-io/emitter/internal/message"
	"github.com/emitter-io/emitter/internal/network/mqtt"
	"github.com/emitter-io/emitter/internal/provider/contract"
	"github.com/emitter-io/emitter/internal/provider/logging"
	"github.com/emitter-io/emitter/internal/provider/storage"
	"github.com/emitter-io/emitter/internal/security"
	"github.com/emitter-io/emitter/internal/security/license"
	"github.com/emitter-io/emitter/internal/service"
	"github.com/emitter-io/emitter/internal/service/cluster"
	"github.com/emitter-io/emitter/internal/service/fake"
	"github.com/emitter-io/emitter/internal/service/presence"
	"github.com/emitter-io/emitter/internal/service/survey"
	"github.com/emitter-io/emitter/internal/zzverif/vlib"
	"github.com/golang/snappy"
	"github.com/weaveworks/mesh"
)

var cfg *vlib.Config

type quiet struct{}

func (quiet) Name() string                                  { return "quiet" }
func (quiet) Configure(config map[string]interface{}) error { return nil }
func (quiet) Printf(format string, v ...interface{})        {}

func uv(x uint64) []byte {
	b := make([]byte, 0, 10)
	for x >= 0x80 {
		b = append(b, byte(x)|0x80)
		x >>= 7
	}
	return append(b, byte(x))
}

// guarded runs f with a panic catcher, a watchdog and an allocation counter.
// class: 0 = returned nil, 1 = returned an error, 2 = panic escaped, 3 = still running after 10 s.
var lastErr string

func guarded(f func() error) (class int, alloc uint64) {
	lastErr = ""
	var m0, m1 runtime.MemStats
	runtime.ReadMemStats(&m0)
	done := make(chan int, 1)
	go func() {
		var err error
		p, _ := vlib.Catch(func() { err = f() })
		switch {
		case p:
			done <- 2
		case err != nil:
			lastErr = err.Error()
			done <- 1
		default:
			done <- 0
		}
	}()
	select {
	case class = <-done:
	case <-time.After(10 * time.Second):
		class = 3
	}
	runtime.ReadMemStats(&m1)
	return class, m1.TotalAlloc - m0.TotalAlloc
}

// ---- hostile MQTT streams -----------------------------------------------------------------------

func enc(m mqtt.Message) []byte {
	var b bytes.Buffer
	m.EncodeTo(&b)
	return b.Bytes()
}

func validSession(r *rand.Rand, key string) [][]byte {
	chans := []string{"a/b/", "a/+/", "a/#/", "a/b/c/", "b/", "a/b/?last=5", "a/b/?ttl=30&me=0", "emitter/keygen/", "emitter/presence/", "emitter/link/", "emitter/me/"}
	out := [][]byte{enc(&mqtt.Connect{ProtoName: []byte("MQTT"), Version: 4, ClientID: []byte("c09"), UsernameFlag: r.Intn(2) == 0, Username: []byte("u"), KeepAlive: 30})}
	n := 1 + r.Intn(5)
	for i := 0; i < n; i++ {
		ch := key + "/" + chans[r.Intn(len(chans))]
		switch r.Intn(5) {
		case 0:
			out = append(out, enc(&mqtt.Subscribe{Header: mqtt.Header{QOS: 1}, MessageID: uint16(r.Intn(65536)), Subscriptions: []mqtt.TopicQOSTuple{{Topic: []byte(ch), Qos: 0}}}))
		case 1:
			out = append(out, enc(&mqtt.Unsubscribe{Header: mqtt.Header{QOS: 1}, MessageID: uint16(r.Intn(65536)), Topics: []mqtt.TopicQOSTuple{{Topic: []byte(ch)}}}))
		case 2:
			out = append(out, enc(&mqtt.Publish{Header: mqtt.Header{QOS: uint8(r.Intn(2)), Retain: r.Intn(4) == 0}, MessageID: uint16(r.Intn(65536)), Topic: []byte(ch), Payload: vlib.RandBytes(r, r.Intn(40))}))
		case 3:
			out = append(out, enc(&mqtt.Pingreq{}))
		case 4:
			out = append(out, enc(&mqtt.Publish{Header: mqtt.Header{QOS: 1}, MessageID: 3, Topic: []byte("emitter/presence/"), Payload: []byte(`{"key":"` + key + `","channel":"a/b/","status":true,"changes":true}`)}))
		}
	}
	if r.Intn(2) == 0 {
		out = append(out, enc(&mqtt.Disconnect{}))
	}
	return out
}

var bigLens = []uint64{127, 128, 16383, 16384, 65535, 65536, 65537, 1 << 20, 1<<20 + 1, 2097151, 2097152, 268435455}

func remLen(x uint64) []byte {
	var b []byte
	for {
		d := byte(x % 128)
		x /= 128
		if x > 0 {
			d |= 0x80
		}
		b = append(b, d)
		if x == 0 {
			return b
		}
	}
}

// hostileStream: a session and one of several ways of spoiling it
func hostileStream(r *rand.Rand, key string) ([]byte, string) {
	pk := validSession(r, key)
	flat := bytes.Join(pk, nil)
	switch r.Intn(9) {
	case 0: // truncated at an arbitrary offset
		return flat[:r.Intn(len(flat)+1)], "truncated"
	case 1: // a few bytes flipped
		b := append([]byte{}, flat...)
		for i := 0; i < 1+r.Intn(4); i++ {
			b[r.Intn(len(b))] ^= byte(1 << uint(r.Intn(8)))
		}
		return b, "bitflips"
	case 2: // one packet's remaining length replaced by a larger one
		i := r.Intn(len(pk))
		p := pk[i]
		if len(p) < 2 {
			return flat, "valid"
		}
		_, n := decodeRemLen(p[1:])
		np := append([]byte{p[0]}, remLen(bigLens[r.Intn(len(bigLens))])...)
		np = append(np, p[1+n:]...)
		var b []byte
		for j, q := range pk {
			if j == i {
				b = append(b, np...)
			} else {
				b = append(b, q...)
			}
		}
		return b, "inflated-length"
	case 3: // one packet's remaining length replaced by a smaller one: the body is cut inside its fields
		i := r.Intn(len(pk))
		p := pk[i]
		if len(p) < 3 {
			return flat, "valid"
		}
		l, n := decodeRemLen(p[1:])
		nl := uint64(0)
		if l > 0 {
			nl = uint64(r.Intn(int(l)))
		}
		np := append([]byte{p[0]}, remLen(nl)...)
		np = append(np, p[1+n:]...)
		var b []byte
		for j, q := range pk {
			if j == i {
				b = append(b, np...)
			} else {
				b = append(b, q...)
			}
		}
		return b, "deflated-length"
	case 4: // random bytes
		return vlib.RandBytes(r, r.Intn(64)), "random"
	case 5: // a header with many continuation bytes
		b := []byte{byte(r.Intn(256))}
		for i := 0; i < r.Intn(12); i++ {
			b = append(b, 0x80|byte(r.Intn(128)))
		}
		return append(b, vlib.RandBytes(r, r.Intn(6))...), "length-continuation"
	case 6: // inner string lengths inflated
		b := append([]byte{}, flat...)
		for i := 0; i+1 < len(b) && i < 40; i++ {
			if b[i] == 0 && r.Intn(3) == 0 {
				b[i] = byte(r.Intn(256))
			}
		}
		return b, "inflated-strings"
	case 7: // every packet type with a short random body
		t := byte(r.Intn(16))
		body := vlib.RandBytes(r, r.Intn(8))
		return append(append([]byte{t<<4 | byte(r.Intn(16))}, remLen(uint64(len(body)))...), body...), "short-body"
	}
	return flat, "valid"
}

func decodeRemLen(b []byte) (uint64, int) {
	var x uint64
	mult := uint64(1)
	for i, c := range b {
		x += uint64(c&127) * mult
		mult *= 128
		if c&128 == 0 {
			return x, i + 1
		}
	}
	return x, len(b)
}

// streamCase loops DecodePacket over the stream like Conn.Process does.  hung = the loop was still
// running (and allocating) after 3 s: the caller must stop the process after recording the case.
func streamCase(s []byte, max int64) (term string, nServed int, hung bool) {
	rd := bufio.NewReaderSize(bytes.NewReader(s), 65536)
	var served []string
	end := 0
	var m0, m1 runtime.MemStats
	runtime.ReadMemStats(&m0)
	done := make(chan struct{})
	go func() {
		defer close(done)
		for {
			var m mqtt.Message
			var err error
			p, _ := vlib.Catch(func() { m, err = mqtt.DecodePacket(rd, max) })
			if p {
				end = 3
				return
			}
			if err != nil {
				switch {
				case errors.Is(err, io.EOF), errors.Is(err, io.ErrUnexpectedEOF):
					end = 0
				case errors.Is(err, mqtt.ErrMessageTooLarge):
					end = 1
				default:
					end = 2
				}
				return
			}
			served = append(served, packetTerm(m))
		}
	}()
	select {
	case <-done:
	case <-time.After(3 * time.Second):
		runtime.ReadMemStats(&m1)
		return vlib.App("CStream", vlib.Bytes(s), vlib.N(uint64(max)), "[]", "4", vlib.N(m1.TotalAlloc-m0.TotalAlloc)), 0, true
	}
	runtime.ReadMemStats(&m1)
	return vlib.App("CStream", vlib.Bytes(s), vlib.N(uint64(max)), vlib.List(served), vlib.N(uint64(end)), vlib.N(m1.TotalAlloc-m0.TotalAlloc)), len(served), false
}

// ---- cluster port -------------------------------------------------------------------------------

func msgTerm(m message.Message) string {
	return vlib.App("Msg", vlib.Bytes(m.ID), vlib.Bytes(m.Channel), vlib.Bytes(m.Payload), vlib.N(uint64(m.TTL)))
}

func encBytes(b []byte) []byte { return append(uv(uint64(len(b))), b...) }

func hostileFrame(r *rand.Rand) ([]byte, string) {
	n := r.Intn(4)
	var body []byte
	kind := "frame"
	for i := 0; i < n; i++ {
		idLen := vlib.Pick(r, 24, 24, 24, 28, 20, 19, 16, 13, 12, 3, 0, 21)
		id := vlib.RandBytes(r, idLen)
		if idLen < 20 {
			kind = "frame-short-id"
		}
		body = append(body, encBytes(id)...)
		body = append(body, encBytes([]byte("a/b/"))...)
		body = append(body, encBytes(vlib.RandBytes(r, r.Intn(12)))...)
		body = append(body, uv(uint64(r.Intn(100000)))...)
	}
	inner := append(uv(uint64(n)), body...)
	switch r.Intn(8) {
	case 0:
		counts := []uint64{uint64(n) + 1, 1 << 20, 1 << 30, 1 << 40, 1 << 62, 1 << 63, 1<<64 - 1, uint64(len(body)) / 4, uint64(len(body))/4 + 1}
		return append(uv(counts[r.Intn(len(counts))]), body...), "frame-count-inflated"
	case 1:
		return inner[:r.Intn(len(inner)+1)], "frame-truncated"
	case 2: // a length prefix of 2^63 or more
		big := []uint64{1 << 63, 1<<64 - 1, 1<<63 + 5, 1<<63 - 1, 1 << 40}
		return append(append(uv(1), uv(big[r.Intn(len(big))])...), vlib.RandBytes(r, r.Intn(8))...), "frame-length-inflated"
	case 3:
		return vlib.RandBytes(r, r.Intn(24)), "frame-random"
	}
	return inner, kind
}

func hostileState(r *rand.Rand) ([]byte, string) {
	kind := "state"
	nsub := r.Intn(4)
	var body []byte
	for i := 0; i < nsub; i++ {
		typ := byte(vlib.Pick(r, 0, 0, 1, 2, 2, 3, 7))
		ne := r.Intn(4)
		var ents []byte
		for j := 0; j < ne; j++ {
			kl := vlib.Pick(r, 16, 20, 24, 24, 28, 15, 9, 8, 7, 0, 17)
			vl := vlib.Pick(r, 16, 16, 16, 20, 40, 15, 8, 0)
			if kl < 16 {
				kind = "state-short-key"
			}
			if vl < 16 {
				kind = "state-short-value"
			}
			k := vlib.RandBytes(r, kl)
			if kl >= 8 && r.Intn(2) == 0 {
				copy(k, []byte{0, 0, 0, 0, 0, 0, 0, byte(2 + r.Intn(2))}) // a peer name the post-check asks for
			}
			v := vlib.RandBytes(r, vl)
			if typ == 2 && vl >= 16 && r.Intn(2) == 0 {
				// a connection event whose value announces field lengths it does not have
				big := []uint64{1 << 20, 1 << 34, 1 << 40, 1 << 63, 1<<64 - 1, 5}
				v = append(v[:16], 1, 0, 2)
				v = append(v, uv(big[r.Intn(len(big))])...)
				v = append(v, vlib.RandBytes(r, r.Intn(6))...)
				kind = "state-conn-length-inflated"
			}
			if vl >= 16 { // plausible times
				copy(v, []byte{0, 0, 0, 0, 0, 0, 0, byte(r.Intn(9))})
				copy(v[8:], []byte{0, 0, 0, 0, 0, 0, 0, byte(r.Intn(9))})
			}
			ents = append(ents, encBytes(k)...)
			ents = append(ents, encBytes(v)...)
		}
		cnt := uint64(ne)
		if r.Intn(8) == 0 {
			cnt = []uint64{uint64(ne) + 1, 1 << 30, 1 << 63, 1<<64 - 1}[r.Intn(4)]
			kind = "state-set-count-inflated"
		}
		body = append(body, typ)
		body = append(body, uv(cnt)...)
		body = append(body, ents...)
	}
	inner := append(uv(uint64(nsub)), body...)
	switch r.Intn(8) {
	case 0:
		counts := []uint64{uint64(nsub) + 1, 1 << 30, 1 << 40, 1 << 63, 1<<64 - 1}
		return append(uv(counts[r.Intn(len(counts))]), body...), "state-count-inflated"
	case 1:
		return inner[:r.Intn(len(inner)+1)], "state-truncated"
	case 2:
		big := []uint64{1 << 63, 1<<64 - 1, 1 << 40}
		return append(append(append(uv(1), 0), uv(1)...), uv(big[r.Intn(len(big))])...), "state-length-inflated"
	case 3:
		return vlib.RandBytes(r, r.Intn(24)), "state-random"
	}
	return inner, kind
}

// ---- live broker (child process) ----------------------------------------------------------------

type client struct {
	conn   net.Conn
	pkts   chan mqtt.Message
	closed chan struct{}
}

func newClient(svc *broker.Service) *client {
	a, b := net.Pipe()
	c := &client{conn: a, pkts: make(chan mqtt.Message, 65536), closed: make(chan struct{})}
	svc.VerifAttach(b)
	go func() {
		rd := bufio.NewReaderSize(a, 65536)
		for {
			m, err := mqtt.DecodePacket(rd, 1<<20)
			if err != nil {
				close(c.closed)
				return
			}
			select {
			case c.pkts <- m:
			default:
			}
		}
	}()
	return c
}

func (c *client) write(b []byte) {
	c.conn.SetWriteDeadline(time.Now().Add(2 * time.Second))
	c.conn.Write(b)
}

func mkKey(lic license.License, target string, perms uint8) string {
	cipher, _ := lic.Cipher()
	k := security.Key(make([]byte, 24))
	k.SetSalt(777)
	k.SetMaster(1)
	k.SetContract(lic.Contract())
	k.SetSignature(lic.Signature())
	k.SetPermissions(perms)
	k.SetTarget(target)
	s, _ := cipher.EncryptKey(k)
	return s
}

const licText = "N7b6urJ1yn0mnB5BCbNgG7tG2D2UfBpCbXYxVyWGGI0RV2wwB1XTLVDIqoWbtlM5aSTYBnKNcxXbQO8jY5Y30BZeqO5dAGGkCfY3FdTo02DWxC6SHSaBTAH2aPpGIfsC"

// extreme: well-formed requests with extreme parameters (valid key)
func extreme(r *rand.Rand, key string) ([]byte, string) {
	con := enc(&mqtt.Connect{ProtoName: []byte("MQTT"), Version: 4, ClientID: []byte("x")})
	big := []string{"9223372036854775807", "-9223372036854775808", "4294967296", "2147483648", "1073741824", "99999999999", "-1", "0", "18446744073709551616"}
	v := big[r.Intn(len(big))]
	switch r.Intn(10) {
	case 7, 8, 9: // option lists of every malformed shape: keys without '=', empty keys / values, stray separators
		complete := []string{"ttl=42", "last=2", "me=0", "a=b"}
		tails := []string{"", "&", "x", "ttl", "x=", "=1", "&&", "a==b", "a=1?b=2", "x&y"}
		opt := "?"
		nc := r.Intn(3)
		for k := 0; k < nc; k++ {
			if k > 0 {
				opt += "&"
			}
			opt += complete[r.Intn(len(complete))]
		}
		if tail := tails[r.Intn(len(tails))]; tail != "" {
			if nc > 0 && tail[0] != '&' {
				opt += "&"
			}
			opt += tail
		}
		topic := []byte(key + "/a/b/" + opt)
		if r.Intn(2) == 0 {
			return append(con, enc(&mqtt.Subscribe{Header: mqtt.Header{QOS: 1}, MessageID: 1, Subscriptions: []mqtt.TopicQOSTuple{{Topic: topic}}})...), "odd-options"
		}
		return append(con, enc(&mqtt.Publish{Header: mqtt.Header{QOS: 1}, MessageID: 1, Topic: topic, Payload: []byte("x")})...), "odd-options"
	case 0:
		return append(con, enc(&mqtt.Subscribe{Header: mqtt.Header{QOS: 1}, MessageID: 1, Subscriptions: []mqtt.TopicQOSTuple{{Topic: []byte(key + "/a/b/?last=" + v)}}})...), "extreme-last"
	case 1:
		return append(con, enc(&mqtt.Publish{Header: mqtt.Header{QOS: 1}, MessageID: 1, Topic: []byte(key + "/a/b/?ttl=" + v), Payload: []byte("x")})...), "extreme-ttl"
	case 2:
		return append(con, enc(&mqtt.Subscribe{Header: mqtt.Header{QOS: 1}, MessageID: 1, Subscriptions: []mqtt.TopicQOSTuple{{Topic: []byte(key + "/a/b/?from=" + v + "&until=" + big[r.Intn(len(big))] + "&last=3")}}})...), "extreme-window"
	case 3: // more than a thousand topics in one packet (encoded by hand: EncodeTo is limited to 64 KiB)
		body := []byte{0, 1}
		for i := 0; i < 1300; i++ {
			t := fmt.Sprintf("%s/a/%d/", key, i%50)
			body = append(body, byte(len(t)>>8), byte(len(t)))
			body = append(body, t...)
			body = append(body, 0)
		}
		return append(con, append(append([]byte{0x82}, remLen(uint64(len(body)))...), body...)...), "extreme-topic-count"
	case 4: // a very deep / long channel
		return append(con, enc(&mqtt.Subscribe{Header: mqtt.Header{QOS: 1}, MessageID: 1, Subscriptions: []mqtt.TopicQOSTuple{{Topic: []byte(key + "/" + strings.Repeat("a/", 20000))}}})...), "extreme-depth"
	case 5:
		req, _ := json.Marshal(map[string]interface{}{"key": "k", "channel": "a/b/", "type": "rwlsp", "ttl": json.Number(v)})
		return append(con, enc(&mqtt.Publish{Header: mqtt.Header{QOS: 1}, MessageID: 1, Topic: []byte("emitter/keygen/"), Payload: req})...), "extreme-keygen"
	}
	req := []byte(`{"key":"` + key + `","channel":"a/b/","limit":` + v + `,"from":` + big[r.Intn(len(big))] + `}`)
	return append(con, enc(&mqtt.Publish{Header: mqtt.Header{QOS: 1}, MessageID: 1, Topic: []byte("emitter/history/"), Payload: req})...), "extreme-history"
}

func attack(seed int64, i int, key string) ([]byte, string) {
	r := rand.New(rand.NewSource(seed*1000003 + int64(i)))
	if i%3 == 2 {
		return extreme(r, key)
	}
	return hostileStream(r, key)
}

func liveChild(seed int64, n int) {
	var lim syscall.Rlimit
	lim.Cur, lim.Max = 6<<30, 6<<30
	syscall.Setrlimit(syscall.RLIMIT_AS, &lim)
	lic, _ := license.Parse(licText)
	c := config.NewDefault().(*config.Config)
	c.License = licText
	c.Cluster = nil
	svc, err := broker.NewService(context.Background(), c)
	if err != nil {
		fmt.Println("NOSERVICE", err)
		os.Exit(3)
	}
	logging.Logger = quiet{}
	key := mkKey(lic, "a/#/", security.AllowRead|security.AllowWrite|security.AllowStore|security.AllowLoad|security.AllowPresence)
	canary := newClient(svc)
	canary.write(enc(&mqtt.Connect{ProtoName: []byte("MQTT"), Version: 4, ClientID: []byte("canary")}))
	canary.write(enc(&mqtt.Subscribe{Header: mqtt.Header{QOS: 1}, MessageID: 1, Subscriptions: []mqtt.TopicQOSTuple{{Topic: []byte(key + "/a/canary/")}}}))
	time.Sleep(100 * time.Millisecond)
	// a few stored messages so that history requests have something to find
	for i := 0; i < 5; i++ {
		canary.write(enc(&mqtt.Publish{Topic: []byte(key + "/a/b/?ttl=600"), Payload: []byte("stored")}))
	}
	out := bufio.NewWriter(os.Stdout)
	say := func(f string, a ...interface{}) { fmt.Fprintf(out, f+"\n", a...); out.Flush() }
	say("READY")
	probe := func(i int) bool {
		want := fmt.Sprintf("probe-%d", i)
		canary.write(enc(&mqtt.Publish{Topic: []byte(key + "/a/canary/"), Payload: []byte(want)}))
		deadline := time.After(5 * time.Second)
		for {
			select {
			case m := <-canary.pkts:
				if p, ok := m.(*mqtt.Publish); ok && string(p.Payload) == want {
					return true
				}
			case <-canary.closed:
				return false
			case <-deadline:
				return false
			}
		}
	}
	var ms runtime.MemStats
	for i := 0; i < n; i++ {
		b, _ := attack(seed, i, key)
		say("ATTACK %d", i)
		a := newClient(svc)
		a.write(b)
		if i%2 == 0 {
			time.Sleep(2 * time.Millisecond)
			a.conn.Close()
		}
		if i%10 == 9 || i == n-1 {
			ok := probe(i)
			runtime.ReadMemStats(&ms)
			say("CANARY %d %v %d", i, ok, ms.Sys)
		}
		if i%2 == 1 {
			a.conn.Close()
		}
	}
	// every attacker is gone: only the canary remains
	back := false
	for t := 0; t < 100; t++ {
		if svc.VerifConnections() == 1 {
			back = true
			break
		}
		time.Sleep(50 * time.Millisecond)
	}
	say("CONNS %v %d", back, svc.VerifConnections())
	say("DONE")
	os.Exit(0)
}

func liveCase(seed int64, n int, sh *vlib.Shards, key string) {
	cmd := exec.Command(os.Args[0], "live", strconv.FormatInt(seed, 10), strconv.Itoa(n))
	stdout, _ := cmd.StdoutPipe()
	if err := cmd.Start(); err != nil {
		panic(err)
	}
	last, canaryOK, connsBack, done, ready := -1, true, false, false, false
	var maxSys uint64
	sc := bufio.NewScanner(stdout)
	fin := make(chan struct{})
	go func() {
		defer close(fin)
		for sc.Scan() {
			f := strings.Fields(sc.Text())
			if len(f) == 0 {
				continue
			}
			switch f[0] {
			case "READY":
				ready = true
			case "ATTACK":
				last, _ = strconv.Atoi(f[1])
			case "CANARY":
				if f[2] != "true" {
					canaryOK = false
				}
				if v, _ := strconv.ParseUint(f[3], 10, 64); v > maxSys {
					maxSys = v
				}
			case "CONNS":
				connsBack = f[1] == "true"
			case "DONE":
				done = true
			}
		}
	}()
	select {
	case <-fin:
	case <-time.After(time.Duration(60+n/4) * time.Second):
		cmd.Process.Kill()
		<-fin
	}
	err := cmd.Wait()
	alive := done && err == nil
	var lastBytes []byte
	kind := ""
	if !alive && last >= 0 {
		lastBytes, kind = attack(seed, last, key)
	}
	sh.Add(vlib.App("CLive", vlib.N(uint64(n)), vlib.Bool(ready), vlib.Bool(alive), vlib.Bool(canaryOK), vlib.Bool(connsBack), vlib.N(maxSys), vlib.Bytes(lastBytes)),
		map[string]interface{}{"op": "live broker under attack", "attacks": n, "alive": alive, "canary_ok": canaryOK, "connections_back_to_baseline": connsBack, "max_sys_bytes": maxSys, "last_attack": last, "last_attack_kind": kind}, "live", true)
}

// ---- a client that stops reading ---------------------------------------------------------------------

// stallConn is a client connection whose peer never takes a byte: a write to it blocks until the write
// deadline set by the broker (or for ever when there is none).  Time runs 400 times faster than the
// broker's clock, so that a 120 s deadline elapses in 300 ms.  Reads deliver a scripted session and then
// a PINGREQ every 50 ms - the client is not idle, it just does not read.
type stallConn struct {
	mu        sync.Mutex
	script    [][]byte
	rd, wd    time.Time
	closed    chan struct{}
	once      sync.Once
	unbounded int // writes that started with no write deadline in force
}

type timeoutErr struct{}

func (timeoutErr) Error() string   { return "i/o timeout" }
func (timeoutErr) Timeout() bool   { return true }
func (timeoutErr) Temporary() bool { return true }

func scaled(t time.Time) time.Duration { return time.Until(t) / 400 }

func (c *stallConn) Read(p []byte) (int, error) {
	c.mu.Lock()
	var next []byte
	if len(c.script) > 0 {
		next, c.script = c.script[0], c.script[1:]
	}
	c.mu.Unlock()
	if next == nil {
		select {
		case <-c.closed:
			return 0, io.EOF
		case <-time.After(50 * time.Millisecond):
		}
		next = []byte{0xc0, 0x00} // PINGREQ
	}
	return copy(p, next), nil
}

func (c *stallConn) Write(p []byte) (int, error) {
	c.mu.Lock()
	wd := c.wd
	if wd.IsZero() {
		c.unbounded++
	}
	c.mu.Unlock()
	if wd.IsZero() {
		<-c.closed
		return 0, io.ErrClosedPipe
	}
	select {
	case <-c.closed:
		return 0, io.ErrClosedPipe
	case <-time.After(scaled(wd)):
		return 0, timeoutErr{}
	}
}
func (c *stallConn) Close() error         { c.once.Do(func() { close(c.closed) }); return nil }
func (c *stallConn) LocalAddr() net.Addr  { return &net.TCPAddr{} }
func (c *stallConn) RemoteAddr() net.Addr { return &net.TCPAddr{} }
func (c *stallConn) SetDeadline(t time.Time) error {
	c.mu.Lock()
	c.rd, c.wd = t, t
	c.mu.Unlock()
	return nil
}
func (c *stallConn) SetReadDeadline(t time.Time) error {
	c.mu.Lock()
	c.rd = t
	c.mu.Unlock()
	return nil
}
func (c *stallConn) SetWriteDeadline(t time.Time) error {
	c.mu.Lock()
	c.wd = t
	c.mu.Unlock()
	return nil
}

// stalled: a subscriber that never reads is attached to a real broker; a publisher sends to its channel.
// The broker must give the stalled connection up (close it) and the publisher must be served.
func stalled(svc *broker.Service, key string) (gaveUp, publisherServed bool) {
	sc := &stallConn{closed: make(chan struct{}), script: [][]byte{
		enc(&mqtt.Connect{ProtoName: []byte("MQTT"), Version: 4, ClientID: []byte("stall")}),
		enc(&mqtt.Subscribe{Header: mqtt.Header{QOS: 1}, MessageID: 1, Subscriptions: []mqtt.TopicQOSTuple{{Topic: []byte(key + "/a/stall/")}}}),
	}}
	svc.VerifAttach(sc)
	time.Sleep(100 * time.Millisecond)
	pub := newClient(svc)
	pub.write(enc(&mqtt.Connect{ProtoName: []byte("MQTT"), Version: 4, ClientID: []byte("pub")}))
	done := make(chan struct{})
	go func() {
		for i := 0; i < 20; i++ {
			pub.write(enc(&mqtt.Publish{Header: mqtt.Header{QOS: 0}, Topic: []byte(key + "/a/stall/"), Payload: bytes.Repeat([]byte{7}, 2000)}))
		}
		pub.write(enc(&mqtt.Pingreq{}))
		close(done)
	}()
	select {
	case <-sc.closed:
		gaveUp = true
	case <-time.After(4 * time.Second):
	}
	select {
	case <-done:
		publisherServed = true
	case <-time.After(2 * time.Second):
	}
	sc.Close()
	pub.conn.Close()
	return
}

// ---- survey answers ------------------------------------------------------------------------------------

type surveyGossip struct{ peers int }

func (g surveyGossip) ID() uint64                                   { return 1 }
func (g surveyGossip) NumPeers() int                                { return g.peers }
func (g surveyGossip) SendTo(mesh.PeerName, *message.Message) error { return nil }

type surveyPubSub struct{}

func (surveyPubSub) Publish(*message.Message, func(message.Subscriber) bool) int64 { return 0 }
func (surveyPubSub) Subscribe(message.Subscriber, *event.Subscription) bool        { return true }
func (surveyPubSub) Unsubscribe(message.Subscriber, *event.Subscription) bool      { return true }
func (surveyPubSub) Handle(string, service.Handler)                                {}

// lateAnswers: a survey among [peers] brokers gets [early] answers and times out; then [late] frames
// carrying its query id arrive from a peer.  Handling them must return (the goroutine serving that
// peer's connection must not block).
func lateAnswers(peers, early, late int) bool {
	s := survey.New(surveyPubSub{}, surveyGossip{peers})
	aw, _ := s.Query("q", nil)
	answer := func() { s.Send(message.New(message.Ssid{0, 3939663052, 1}, []byte("response"), []byte("x"))) }
	for i := 0; i < early; i++ {
		answer()
	}
	aw.Gather(30 * time.Millisecond)
	done := make(chan struct{})
	go func() {
		for i := 0; i < late; i++ {
			answer()
		}
		close(done)
	}()
	select {
	case <-done:
		return true
	case <-time.After(2 * time.Second):
		return false
	}
}

// ---- presence answers from peers ------------------------------------------------------------------------

type allowAll struct{}

func (allowAll) Authorize(ch *security.Channel, perm uint8) (contract.Contract, security.Key, bool) {
	k := security.Key(make([]byte, 24))
	k.SetContract(1)
	k.SetPermissions(perm)
	return nil, k, true
}

// presenceAnswer: a client asks for the presence status of a channel; the one peer of the cluster answers
// the survey with [answer].  Class and allocation of the whole request.
func presenceAnswer(answer []byte) (class int, alloc uint64) {
	sv := survey.New(surveyPubSub{}, surveyGossip{1})
	ps := presence.New(allowAll{}, surveyPubSub{}, sv, message.NewTrie())
	req := []byte(`{"key":"k","channel":"a/b/","status":true}`)
	go func() {
		time.Sleep(30 * time.Millisecond) // the survey is under way: the peer answers
		sv.Send(message.New(message.Ssid{0, 3939663052, 1}, []byte("response"), answer))
	}()
	return guarded(func() error {
		ps.OnRequest(&fake.Conn{}, req)
		return nil
	})
}

// ---- main ---------------------------------------------------------------------------------------

func main() {
	if len(os.Args) > 1 && os.Args[1] == "live" {
		seed, _ := strconv.ParseInt(os.Args[2], 10, 64)
		n, _ := strconv.Atoi(os.Args[3])
		liveChild(seed, n)
		return
	}
	cfg = vlib.ParseFlags()
	r := cfg.Rng
	logging.Logger = quiet{}
	sh := vlib.NewShards(cfg.Out, "C09", "From Emitter Require Import Lib.Base Model.Mqtt Model.MsgCodec Model.Hostile Check.C09.", "case", "check", 150)
	lic, _ := license.Parse(licText)
	key := mkKey(lic, "a/#/", security.AllowRead|security.AllowWrite|security.AllowStore|security.AllowLoad|security.AllowPresence)

	// 1. hostile streams through the DecodePacket loop
	nStream := 1500 * cfg.Mult
	for i := 0; i < nStream; i++ {
		s, kind := hostileStream(r, key)
		max := int64(vlib.Pick(r, 64, 1024, 65536, 65536, 1<<20))
		t, served, hung := streamCase(s, max)
		sh.Add(t, map[string]interface{}{"op": "DecodePacket loop", "kind": kind, "bytes": len(s), "max": max, "served": served, "hung": hung}, "stream/"+kind, len(s) > 0)
		if hung {
			// the decoder is still running on another goroutine and cannot be stopped: report what
			// was seen and end the process
			sh.Finish("stopped early: the packet loop did not end on the last stream case")
			os.Exit(0)
		}
	}

	// 2. history pre-allocation
	st := storage.NewInMemory(nil)
	st.Configure(nil)
	for _, l := range []int64{0, 1, 2, 64, 1023, 1024, 1025, 4096, 1 << 20, 1 << 31, 1 << 40, 1 << 62, -1, -1024, -(1 << 40)} {
		var c int
		class, _ := guarded(func() error { c = st.VerifLookupCap(int(l)); return nil })
		sh.Add(vlib.App("CLast", vlib.Z(l), vlib.N(uint64(class)), vlib.Z(int64(c))), map[string]interface{}{"op": "lookup capacity", "limit": l, "cap": c}, "last", true)
	}

	// 3. cluster port
	c := config.NewDefault().(*config.Config)
	c.License = licText
	c.Cluster = nil
	svc, err := broker.NewService(context.Background(), c)
	if err != nil {
		panic(err)
	}
	logging.Logger = quiet{}
	sub := newClient(svc)
	sub.write(enc(&mqtt.Connect{ProtoName: []byte("MQTT"), Version: 4, ClientID: []byte("sub")}))
	sub.write(enc(&mqtt.Subscribe{Header: mqtt.Header{QOS: 1}, MessageID: 1, Subscriptions: []mqtt.TopicQOSTuple{{Topic: []byte(key + "/a/#/")}}}))
	time.Sleep(100 * time.Millisecond)
	dir := filepath.Join(cfg.Out, "swarm")
	sw := cluster.NewSwarm(&config.ClusterConfig{NodeName: "00:00:00:00:00:01", ListenAddr: ":4000", AdvertiseAddr: ":4001", Directory: dir})
	var delivered []string
	sw.OnMessage = func(m *message.Message) {
		svc.VerifOnPeerMessage(m)
		delivered = append(delivered, msgTerm(*m))
	}
	sw.OnSubscribe = func(message.Subscriber, *event.Subscription) bool { return true }
	sw.OnUnsubscribe = func(message.Subscriber, *event.Subscription) bool { return true }

	nFrame := 700 * cfg.Mult
	for i := 0; i < nFrame; i++ {
		inner, kind := hostileFrame(r)
		delivered = nil
		class, alloc := guarded(func() error { return sw.OnGossipUnicast(mesh.PeerName(2), snappy.Encode(nil, inner)) })
		sh.Add(vlib.App("CUnicast", vlib.Bytes(inner), vlib.N(uint64(class)), vlib.List(delivered), vlib.N(alloc)),
			map[string]interface{}{"op": "OnGossipUnicast", "kind": kind, "inner_bytes": len(inner), "class": class, "delivered": len(delivered), "err": lastErr}, "unicast/"+kind, len(inner) > 0)
	}
	nState := 700 * cfg.Mult
	for i := 0; i < nState; i++ {
		inner, kind := hostileState(r)
		buf := snappy.Encode(nil, inner)
		var class int
		var alloc uint64
		if i%2 == 0 {
			class, alloc = guarded(func() error { _, err := sw.OnGossipBroadcast(mesh.PeerName(2), buf); return err })
		} else {
			class, alloc = guarded(func() error { _, err := sw.OnGossip(buf); return err })
		}
		errText := lastErr
		// what later readers of the replicated state do with what was merged
		post, _ := guarded(func() error {
			for _, p := range []mesh.PeerName{2, 3} {
				sw.VerifState().SubscriptionsOf(p, func(*event.Subscription) {})
				sw.VerifState().ConnectionsOf(p, func(*event.Connection) {})
			}
			sw.VerifState().Subscriptions(func(*event.Subscription, event.Value) {})
			sw.Notify(&event.Subscription{Peer: 1, Conn: 5, Ssid: message.Ssid{1, 2}}, i%2 == 0)
			return nil
		})
		sh.Add(vlib.App("CGossip", vlib.N(uint64(i%2)), vlib.Bytes(inner), vlib.N(uint64(class)), vlib.N(uint64(post)), vlib.N(alloc)),
			map[string]interface{}{"op": "OnGossip/OnGossipBroadcast", "kind": kind, "inner_bytes": len(inner), "class": class, "post": post, "err": errText}, "gossip/"+kind, len(inner) > 0)
	}
	// raw (not snappy-wrapped) payloads, among them snappy headers announcing a huge decoded length
	nRaw := 200 * cfg.Mult
	for i := 0; i < nRaw; i++ {
		var raw []byte
		kind := "raw-random"
		switch {
		case i == 0:
			raw, kind = append(uv(1<<30), 0, 0, 0), "raw-snappy-length-bomb"
		case i%4 == 1:
			raw, kind = append(uv(uint64(r.Intn(1<<16))), vlib.RandBytes(r, r.Intn(16))...), "raw-snappy-length"
		default:
			// random bytes behind a header that announces at most 512 KiB (random headers announce up
			// to 4 GiB each: the one deliberate bomb above is enough to show F14d)
			raw = append(uv(uint64(r.Intn(1<<19))), vlib.RandBytes(r, r.Intn(40))...)
		}
		which := i % 3
		class, alloc := guarded(func() error {
			switch which {
			case 0:
				return sw.OnGossipUnicast(mesh.PeerName(2), raw)
			case 1:
				_, err := sw.OnGossipBroadcast(mesh.PeerName(2), raw)
				return err
			}
			_, err := sw.OnGossip(raw)
			return err
		})
		sh.Add(vlib.App("CRaw", vlib.N(uint64(which)), vlib.Bytes(raw), vlib.N(uint64(class)), vlib.N(alloc)),
			map[string]interface{}{"op": "raw payload to a gossip handler", "kind": kind, "bytes": len(raw), "class": class, "alloc": alloc}, kind, true)
	}

	// 3a. survey requests from a peer (the payload of a "ssdstore" / "presence" request frame): well
	// formed ones, and ones whose announced lengths are inflated
	{
		uv := func(x uint64) []byte {
			var b []byte
			for x >= 0x80 {
				b = append(b, byte(x)|0x80)
				x >>= 7
			}
			return append(b, byte(x))
		}
		ssd, _ := svc.VerifStorage().(survey.Surveyee)
		pres := survey.Surveyee(svc.VerifPresence())
		lens := []uint64{0, 1, 2, 3, 100, 1 << 16, 1 << 20, 1 << 26, 1 << 28}
		for i := 0; i < 60*cfg.Mult; i++ {
			which := i % 2
			var pl []byte
			kind := "survey/well-formed"
			ssidLen := uint64(2 + r.Intn(3))
			announced := ssidLen
			if i%3 == 0 {
				announced = lens[r.Intn(len(lens))]
				kind = "survey/ssid-length-inflated"
			}
			pl = append(pl, uv(announced)...)
			for k := uint64(0); k < ssidLen; k++ {
				pl = append(pl, uv(uint64(r.Intn(1000)))...)
			}
			if which == 0 { // lookupQuery: ssid, from, until, start id, limit
				pl = append(pl, 0, 0)
				idLen := uint64(r.Intn(4))
				if i%3 == 1 { // a well-formed ssid, then an id that announces more than there is
					idLen = []uint64{100, 1 << 16, 1 << 24, 1 << 26, 1 << 28}[r.Intn(5)]
					kind = "survey/id-length-inflated"
				}
				pl = append(pl, uv(idLen)...)
				pl = append(pl, vlib.RandBytes(r, r.Intn(4))...)
				pl = append(pl, 10)
			}
			if r.Intn(10) == 0 {
				pl = vlib.RandBytes(r, r.Intn(12))
				kind = "survey/random"
			}
			class, alloc := guarded(func() error {
				if which == 0 && ssd != nil {
					ssd.OnSurvey("ssdstore", pl)
				} else {
					pres.OnSurvey("presence", pl)
				}
				return nil
			})
			sh.Add(vlib.App("CSurveyReq", vlib.N(uint64(which)), vlib.Bytes(pl), vlib.N(uint64(class)), vlib.N(alloc)),
				map[string]interface{}{"op": "survey request from a peer", "handler": []string{"ssdstore", "presence"}[which], "bytes": len(pl), "class": class, "alloc": alloc}, kind, true)
		}
	}

	// 3a'. answers of a peer to a presence survey: lists of (id, username) with inflated counts / lengths
	for i := 0; i < 12*cfg.Mult; i++ {
		var ans []byte
		n := uint64(r.Intn(3))
		announced := n
		kind := "presence-answer/well-formed"
		if r.Intn(2) == 0 {
			announced = []uint64{5, 1 << 16, 1 << 22, 1 << 25}[r.Intn(4)]
			kind = "presence-answer/count-inflated"
		}
		for x := announced; ; x >>= 7 {
			if x < 0x80 {
				ans = append(ans, byte(x))
				break
			}
			ans = append(ans, byte(x)|0x80)
		}
		for k := uint64(0); k < n; k++ {
			ans = append(ans, 2, 'i', 'd', 1, 'u')
		}
		class, alloc := presenceAnswer(ans)
		sh.Add(vlib.App("CSurveyReq", "2", vlib.Bytes(ans), vlib.N(uint64(class)), vlib.N(alloc)),
			map[string]interface{}{"op": "answer of a peer to a presence survey", "bytes": len(ans), "class": class, "alloc": alloc}, kind, true)
	}

	// 3a''. the size a packet may announce, whatever the configuration file says (limit.messageSize):
	// a broker configured with a huge limit must still refuse what is beyond an MQTT packet, before it
	// allocates
	for _, configured := range []int{0, 1, 1024, 65535, 65536, 65537, 1 << 20, 1 << 30} {
		c2 := config.NewDefault().(*config.Config)
		c2.License = licText
		c2.Cluster = nil
		c2.Limit.MessageSize = configured
		svc2, err := broker.NewService(context.Background(), c2)
		if err != nil {
			panic(err)
		}
		logging.Logger = quiet{}
		cl := newClient(svc2)
		closed := false
		class, alloc := guarded(func() error {
			cl.write(enc(&mqtt.Connect{ProtoName: []byte("MQTT"), Version: 4, ClientID: []byte("big")}))
			cl.write([]byte{0x30, 0xff, 0xff, 0xff, 0x7f}) // a PUBLISH announcing 256 MiB
			select {
			case <-cl.closed:
				closed = true
			case <-time.After(2 * time.Second):
			}
			return nil
		})
		cl.conn.Close()
		svc2.Close()
		sh.Add(vlib.App("CLimit", vlib.Z(int64(configured)), vlib.Bool(closed), vlib.N(uint64(class)), vlib.N(alloc)),
			map[string]interface{}{"op": "configured message size", "limit.messageSize": configured, "connection_closed": closed, "alloc": alloc}, "configured-limit", true)
	}

	// 3b. a subscriber that stops reading; late and surplus survey answers
	for i := 0; i < 2; i++ {
		gaveUp, served := stalled(svc, key)
		sh.Add(vlib.App("CStall", vlib.Bool(gaveUp), vlib.Bool(served)),
			map[string]interface{}{"op": "subscriber that never reads", "closed_by_broker": gaveUp, "publisher_served": served}, "stalled-subscriber", true)
	}
	for _, x := range [][3]int{{1, 0, 3}, {2, 1, 6}, {3, 0, 10}, {2, 2, 5}, {0, 0, 4}} {
		ok := lateAnswers(x[0], x[1], x[2])
		sh.Add(vlib.App("CSurvey", vlib.N(uint64(x[0])), vlib.N(uint64(x[1])), vlib.N(uint64(x[2])), vlib.Bool(ok)),
			map[string]interface{}{"op": "survey answers after the survey ended", "peers": x[0], "early": x[1], "late": x[2], "handled": ok}, "survey/late-answers", true)
	}

	// 4. the live broker in a child process
	nLive := 400 * cfg.Mult
	if cfg.Thorough() {
		nLive = 4000
	}
	liveCase(cfg.Seed, nLive, sh, key)

	sh.Finish("hostile MQTT streams (sessions truncated, bit-flipped, with inflated / deflated remaining lengths and string lengths, long length continuations, short bodies for every packet type, random bytes) through the DecodePacket loop with four size limits; history limits around the pre-allocation cap; snappy-wrapped hostile unicast frames and gossip states (short ids / keys / values, inflated counts and length prefixes up to 2^64-1, truncations, random) and raw payloads through the real Swarm handlers with a real Service behind OnMessage; brokers configured with limit.messageSize from 0 to 2^30 receiving a packet that announces 256 MiB; a subscriber that never reads (write deadline, time scaled 400x) and a publisher to its channel; survey requests (ssdstore / presence) with inflated ssid and id lengths; survey answers arriving after the survey ended; one live broker child (address-space ceiling 6 GiB) attacked over hundreds of connections incl. well-formed requests with extreme parameters, with a canary client; non-trivial: non-empty inputs")
}
