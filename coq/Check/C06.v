(* Correspondence cases of C06. *)
From Emitter Require Import Lib.Base Model.MsgCodec Model.Store.

Inductive q := Q (ssid : list N) (from until : Z) (start : bytes) (limit : N) (res : list msg).
Inductive case :=
| CStore (disk : bool) (now : Z) (retain : N) (stored : list msg) (queries : list q)
(* page 1 at time now1, continuation pages at time now2 (some messages have expired in between) *)
| CLapse (now1 now2 : Z) (retain : N) (stored : list msg) (queries1 queries2 : list q)
(* n messages stored; the payloads a history request returns as a whole, and page by page (two per page,
   each page continued from the oldest id of the one before) *)
| CPages (n : N) (full : list bytes) (pages : list (list bytes)).

Definition msg_eqb (a b : msg) : bool :=
  bytes_eqb (m_id a) (m_id b) && bytes_eqb (m_chan a) (m_chan b) && bytes_eqb (m_payload a) (m_payload b)
  && (m_ttl a =? m_ttl b).
Definition subset (a b : list msg) : bool := forallb (fun x => existsb (msg_eqb x) b) a.
Definition same_set (a b : list msg) : bool := subset a b && subset b a && (len a =? len b).

Fixpoint nondecreasing (l : list msg) : bool :=
  match l with
  | a :: ((b :: _) as r) => (msg_time a <=? msg_time b)%Z && nondecreasing r
  | _ => true
  end.

(* ---- the property, written independently of the iteration ---- *)
Definition id_words (id : bytes) : list N := match id_ssid id with Ok w => w | _ => [] end.
(* the filter is a level-wise prefix of the stored channel, wildcard levels match any level; the
   contract (word 0) must be equal *)
Fixpoint filter_matches (f w : list N) : bool :=
  match f, w with
  | [], _ => true
  | a :: f', b :: w' => ((a =? b) || (a =? wildcardW) || (a =? multiWildcardW)) && filter_matches f' w'
  | _ :: _, [] => false
  end.
Definition wanted (now : Z) (ssid : list N) (t0 t1 : Z) (e : entry) : bool :=
  visible now e
  && match ssid, id_words (m_id (e_msg e)) with
     | c :: f, c' :: w => (c =? c') && filter_matches f w
     | _, _ => false
     end
  && (t0 <=? msg_time (e_msg e))%Z && (msg_time (e_msg e) <=? t1)%Z.

(* newest first = key order; keep while the reply-size cap holds; at most limit.  A message that by
   itself is larger than the cap can be part of no answer: it is left out and does not hide the older
   ones (before the repair of F26 it ended every page at its position, so that nothing older than it
   could ever be queried) *)
Fixpoint cap_prefix (l : list msg) (size : N) : list msg :=
  match l with
  | [] => []
  | m :: r => let own := len (m_payload m) + len (m_id m) + len (m_chan m) in
              if maxMessageSize <? own then cap_prefix r size
              else if maxMessageSize <? size + own then [] else m :: cap_prefix r (size + own)
  end.
Definition spec_query (s : store) (now : Z) (ssid : list N) (from until : Z) (start : bytes) (limit : N) : list msg :=
  let '(t0, t1) := window from until in
  let cands := map e_msg (filter (wanted now ssid t0 t1) s) in
  let after := match start with [] => cands | _ => filter (fun m => lex_ltb start (m_id m)) cands end in
  take limit (cap_prefix after 0).

(* the continuation id is meant to be an id this very query returned: the oracle judges only those
   (and queries without continuation); other start ids are compared with the model only *)
Definition own_start (s : store) (now : Z) (ssid : list N) (from until : Z) (start : bytes) : bool :=
  match start with
  | [] => true
  | _ => let '(t0, t1) := window from until in
         existsb (fun e => bytes_eqb (m_id (e_msg e)) start) (filter (wanted now ssid t0 t1) s)
  end.

(* [now0]: the time at which the continuation id was (possibly) returned *)
Definition check_q_at (s : store) (now0 now : Z) (x : q) : N :=
  match x with
  | Q ssid from until start limit res =>
    let m := query s now ssid from until start limit in
    bit (same_set m res) 1
    (* oracle: exactly the wanted messages, ordered by non-decreasing time; never another contract,
       never an expired one, never an id at or before the continuation id *)
    |+| (if own_start s now0 ssid from until start
         then bit (same_set (spec_query s now ssid from until start limit) res) 2 else 0)
    |+| bit (nondecreasing res) 2
    |+| bit (forallb (fun r => match start with [] => true | _ => lex_ltb start (m_id r) end) res) 2
    |+| bit (forallb (fun r => match ssid, id_words (m_id r) with c :: _, c' :: _ => c =? c' | _, _ => false end) res) 2
  end.

Definition check_q (s : store) (now : Z) (x : q) : N := check_q_at s now now x.

Definition check (c : case) : N :=
  match c with
  | CStore disk now retain stored queries =>
    let s := fold_left (store_msg retain) stored [] in
    fold_left (fun acc x => acc |+| check_q s now x) queries 0
  | CPages n full pages =>
    let all := concat pages in
    let sub a b := forallb (fun x => existsb (bytes_eqb x) b) a in
    (* the whole is everything stored; the pages are disjoint and together the whole *)
    bit ((len full =? n) && (len all =? len full) && sub all full && sub full all
         && (fix nodup (l : list bytes) := match l with [] => true | x :: r => negb (existsb (bytes_eqb x) r) && nodup r end) all) 2
  | CLapse now1 now2 retain stored queries1 queries2 =>
    let s := fold_left (store_msg retain) stored [] in
    fold_left (fun acc x => acc |+| check_q_at s now1 now2 x) queries2
              (fold_left (fun acc x => acc |+| check_q s now1 x) queries1 0)
  end.
