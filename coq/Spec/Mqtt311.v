(* The MQTT 3.1.1 wire format (OASIS standard, sections 2 and 3), written from the standard and
   not from the Go code.  The packet *values* reuse the field container of Model.Mqtt. *)
From Emitter Require Import Lib.Base Model.Mqtt.

(* 2.2.3 Remaining Length: 7 bits per byte, least significant group first, bit 7 = "more";
   at most four bytes, i.e. values below 268 435 456 *)
Fixpoint varlen (fuel : nat) (x : N) : bytes :=
  match fuel with
  | O => []
  | S f => if x / 128 =? 0 then [x mod 128] else (x mod 128 + 128) :: varlen f (x / 128)
  end.
Definition remaining_length (x : N) : bytes := varlen 4 x.

(* 1.5.3 UTF-8 encoded string / binary field: two byte big-endian length, then the bytes *)
Definition be16 (v : N) : bytes := [v / 256; v mod 256].
Definition field (s : bytes) : bytes := be16 (len s) ++ s.

(* 2.2.2 flags of the fixed header *)
Definition fixed_flags (p : packet) : N :=
  match p with
  | Publish h _ _ _ => 8 * b2n (h_dup h) + 2 * h_qos h + b2n (h_retain h)
  | Pubrel _ _ | Subscribe _ _ _ | Unsubscribe _ _ _ => 2
  | _ => 0
  end.

Definition type_code (p : packet) : N :=
  match p with
  | Connect _ _ _ _ _ _ _ _ _ _ _ _ _ _ => 1 | Connack _ => 2 | Publish _ _ _ _ => 3
  | Puback _ => 4 | Pubrec _ => 5 | Pubrel _ _ => 6 | Pubcomp _ => 7 | Subscribe _ _ _ => 8
  | Suback _ _ => 9 | Unsubscribe _ _ _ => 10 | Unsuback _ => 11 | Pingreq => 12
  | Pingresp => 13 | Disconnect => 14
  end.

(* variable header + payload, section 3 *)
Definition body311 (p : packet) : bytes :=
  match p with
  | Connect proto ver uf pf wr wq wf cs ka cid wt wm un pw =>
    field proto ++ [ver]
    ++ [128 * b2n uf + 64 * b2n pf + 32 * b2n wr + 8 * wq + 4 * b2n wf + 2 * b2n cs]
    ++ be16 ka ++ field cid
    ++ (if wf then field wt ++ field wm else [])
    ++ (if uf then field un else [])
    ++ (if pf then field pw else [])
  | Connack rc => [0; rc]
  | Publish h topic mid payload =>
    field topic ++ (if h_qos h =? 0 then [] else be16 mid) ++ payload
  | Puback mid | Pubrec mid | Pubrel _ mid | Pubcomp mid | Unsuback mid => be16 mid
  | Subscribe _ mid subs => be16 mid ++ flat_map (fun t => field (fst t) ++ [snd t]) subs
  | Suback mid codes => be16 mid ++ codes
  | Unsubscribe _ mid topics => be16 mid ++ flat_map field topics
  | Pingreq | Pingresp | Disconnect => []
  end.

Definition encode311 (p : packet) : bytes :=
  (16 * type_code p + fixed_flags p) :: remaining_length (len (body311 p)) ++ body311 p.

(* well-formed packet values: field ranges of the standard, plus the canonical form of the
   fields that are absent on the wire (they decode to empty / zero) *)
Definition str_ok (s : bytes) : bool := bytes_ok s && (len s <? 65536).
Definition std_hdr (h : hdr) : bool := negb (h_dup h) && (h_qos h =? 1) && negb (h_retain h).

Definition wf311 (p : packet) : bool :=
  match p with
  | Connect proto ver uf pf wr wq wf cs ka cid wt wm un pw =>
    str_ok proto && (ver <? 256) && (wq <? 3) && (ka <? 65536) && str_ok cid
    && str_ok wt && str_ok wm && str_ok un && str_ok pw
    && (wf || ((wq =? 0) && negb wr && (len wt =? 0) && (len wm =? 0)))
    && (uf || (len un =? 0)) && (pf || (len pw =? 0))
  | Connack rc => rc <? 256
  | Publish h topic mid payload =>
    (h_qos h <? 3) && str_ok topic && (mid <? 65536) && bytes_ok payload
    && ((0 <? h_qos h) || (mid =? 0))
  | Puback mid | Pubrec mid | Pubcomp mid | Unsuback mid => mid <? 65536
  | Pubrel h mid => std_hdr h && (mid <? 65536)
  | Subscribe h mid subs =>
    std_hdr h && (mid <? 65536) && forallb (fun t => str_ok (fst t) && (snd t <? 256)) subs
  | Suback mid codes => (mid <? 65536) && bytes_ok codes
  | Unsubscribe h mid topics => std_hdr h && (mid <? 65536) && forallb str_ok topics
  | Pingreq | Pingresp | Disconnect => true
  end.
